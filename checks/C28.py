"""C28 - Experimental parser is total."""
from vlib import *
import xlexlib as X

ID = "C28"
COQ_FILES = ["Common/Corr.v", "Model/XLexer.v", "Model/XLexerTables.v", "Model/XLexerCorr.v",
             "Proofs/XLexerUtf8.v", "Proofs/XLexerScan.v", "Proofs/XLexerStep.v", "Proofs/XLexerLoop.v",
             "Proofs/XLexer.v", "Proofs/XLexerParser.v", "Props/C28.v"]
PROPS = "Props/C28.v"
THEOREMS = ["C28_xlex_total", "C28_xlex_never_out_of_fuel", "C28_xlex_spans_in_file", "C28_verdict_spec"]
# about the code as it was before the repairs; kept in Props/C28.v, audited with the rest
HISTORICAL = ["C28_xlex_total_refuted", "C28_xlex_total_partial", "C28_verdict_spec_refuted", "C28_verdict_spec_partial"]
AXIOMS_OK = []
TRUSTED = ["hand-written Gallina mirror of the experimental lexer (Model/XLexer.v, shared with C29) and of the verdict loop of "
           "parser.Parse over the levels of experimental/report",
           "keyword table, Lexer switches, Unicode classes and the Level / Kind constants transcribed into Model/XLexerTables.v "
           "and compared with the working tree on every run",
           "correspondence harness harness/cmd/xlexer + verif hook parser.VerifLexer; diagnostics are read through Report.ToProto"]
ASSUMPTIONS = ["the recursive-descent parser (parse_*.go, legalize_*.go) and its ensureProgress guard are explored by the fuzz oracle, "
               "not modelled: no theorem covers them",
               "InvalidNumber diagnostics (value parsing of number literals) are not modelled; their spans are checked by the oracle only",
               "the verdict theorems quantify over lists of the four levels the report package defines (ICE, Error, Warning, Remark)",
               "an ICE-only report is never observed (no text producing an ICE is known after the repairs); the verdict on it is "
               "covered by the theorem only"]


def run(ctx):
    import time as _t
    _t0 = _t.time()
    phases = {}
    ctx.extra["phase_s"] = phases
    rng = ctx.rng
    ff, fe, fv = X.TREE["flush"], X.TREE["esc"], X.TREE["verdict"]

    table = ctx.impl("xlexer", [{"mode": "table"}], shards=1)[0]
    if "panic" in table or "crash" in table:
        raise RuntimeError("harness table mode failed: %r" % table)
    X.set_bracket_kws(table)
    terms = X.table_terms(table)
    meta = [("table", None, None)] * len(terms)

    # --- texts for parser.Parse
    files = X.testdata_files(REPO)
    cases = [(c, "t.proto") for c in X.CORPUS]
    cases += [(f, "t.proto") for f in files]
    cases += [(files[k % len(files)], "google/protobuf/descriptor.proto") for k in range(3)] if files else []
    for _ in range(ctx.budget(2500, 40000)):
        cases.append((X.mutate(rng, rng.choice(files)), "t.proto"))
    for _ in range(ctx.budget(300, 5000)):
        f = rng.choice(files)
        cases.append((f[: rng.range(0, len(f))], "t.proto"))
    for _ in range(ctx.budget(1200, 20000)):
        cases.append((b"".join(rng.choice(X.TOKS) for _ in range(rng.range(1, 14))), "t.proto"))
    for c in X.random_rich(rng, ctx.budget(800, 20000)):
        cases.append((c, "t.proto"))
    for _ in range(ctx.budget(300, 5000)):
        cases.append((rng.bytes(rng.range(1, 40)), "t.proto"))
    for _ in range(ctx.budget(200, 3000)):   # valid UTF-8 prefix, then a broken sequence somewhere
        f = bytearray(rng.choice(files)[: rng.range(10, 400)])
        f[rng.below(len(f)):rng.below(len(f))] = rng.choice([b"\xff", b"\xc3", b"\xe2\x82", b"\xed\xa0\x80", b"\xf4\x90\x80\x80", b"\xc0\xaf"])
        cases.append((bytes(f), "t.proto"))
    for c in X.cel_like(rng, ctx.budget(300, 5000)):
        cases.append((c, "t.proto"))
    for c in X.deep_nesting((10, 100, 1000, 10000)):
        cases.append((c, "t.proto"))
    ctx.rule = ("texts given to parser.Parse: hand-picked lexer edge cases, the .proto files under internal/testdata and "
                "experimental/parser/testdata, their mutants (deleted / inserted / overwritten / duplicated spans, appended lone "
                "backslash, quote, bracket, bad byte), truncations at random offsets, random token soups, random strings over the "
                "72-symbol lexer alphabet, random bytes, files with one broken UTF-8 sequence, CEL-like expressions, bracket / "
                "message / option / path nesting to depth 10^4; distinct = distinct (text, path); non-trivial = non-empty")

    outs = ctx.impl("xlexer", [{"mode": "parse", "s": c.hex(), "path": p, "prior": (1 if k % 97 == 0 else 0)}
                               for k, (c, p) in enumerate(cases)])
    nviol = {}
    verdict_seen = set()
    for (c, p), o in zip(cases, outs):
        fails = X.parse_oracle(c, o)
        if "diags" in o:
            levels = [d["level"] for d in o["diags"]]
            klass = ("ice" if 1 in levels else "error" if 2 in levels else "warning-only" if levels else "clean")
        else:
            klass = "crash"
        ctx.count((c, p), len(c) > 0, klass)
        for key, what in fails:
            nviol[key] = nviol.get(key, 0) + 1
            if nviol[key] <= 3 or key not in (X.K_WARN_FAILS, X.K_ICE_ESC, X.K_ICE_PASSES, X.K_ICE_TAIL, X.K_ICE_RESERVED):
                ctx.violation(key, what, {"s": c.hex() if len(c) <= 4000 else c[:2000].hex() + "...", "len": len(c), "path": p,
                                          "text": repr(c[:200]), "ok": o.get("ok"),
                                          "diags": [(d["level"], d["msg"][:60], [sp[:2] for sp in d["spans"]]) for d in o.get("diags", [])][:12]})
        if "diags" in o and "ok" in o and "escaped_panic" not in o:
            vk = (tuple(d["level"] for d in o["diags"]), o["ok"])
            if vk not in verdict_seen:      # the verdict is a function of the level list: one term per distinct observation
                verdict_seen.add(vk)
                terms.append("CVerdict %s [%s]%%Z %s" % (coq_bool(fv), ";".join(str(l) for l in vk[0]), coq_bool(o["ok"])))
                meta.append(("verdict", c, o))
    ctx.extra["oracle_failures_by_key"] = nviol
    ctx.sample({"mode": "parse", "s": b"".hex(), "text": "''"})
    ctx.sample({"mode": "parse", "s": b'syntax = "proto3"; package a; message M { string s = 1 [default = "\\'.hex()})

    # --- the lexer half against the model (the theorems xlex_total / xlex_spans_in_file are about this model)
    lexcases = list(X.CORPUS) + X.random_rich(rng, ctx.budget(300, 8000))
    for (c, p) in cases:
        if 0 < len(c) <= 160 and len(lexcases) < ctx.budget(800, 20000) and rng.chance(1, 3):
            lexcases.append(c)
    lexcases = list(dict.fromkeys(lexcases))
    louts = ctx.impl("xlexer", [{"mode": "lex", "s": c.hex()} for c in lexcases])
    for c, o in zip(lexcases, louts):
        if "crash" in o or "panic" in o:
            ctx.corr_break("xlexer:lex", {"s": c.hex()}, o)
            ctx.violation("panic-escaped-lexer", "Lexer.Lex panicked past CatchICE or the harness crashed", {"s": c.hex(), "observed": o})
            continue
        ctx.count(("lex", c), len(c) > 0, "lex")
        t, why = X.lex_term(c, o, ff, fe)
        if t is None:
            ctx.corr_break("xlexer:lex", {"s": c.hex()}, {"unexpressible": why})
            continue
        terms.append(t)
        meta.append(("lex", c, o))

    phases["cases+impl+oracle"] = round(_t.time() - _t0, 1)
    _t1 = _t.time()
    mism, err = coq_eval_mismatches("cases_C28", X.CORR_HEADER, terms, "xlex_chk", shard_size=ctx.budget(120, 1500))
    phases["coq_eval"] = round(_t.time() - _t1, 1)
    phases["before_run"] = round(_t0 - ctx.t0, 1)
    if err:
        raise RuntimeError(err)
    for k in mism:
        kind, c, o = meta[k]
        if kind == "table":
            ctx.corr_break("xlexer:tables", {"table_term_index": k},
                           {"detail": "keyword table / Unicode class / Level or Kind constants of the working tree differ from Model/XLexerTables.v"})
        elif kind == "verdict":
            ctx.corr_break("parse:verdict", {"s": c.hex() if len(c) <= 4000 else c[:2000].hex() + "...", "text": repr(c[:200])},
                           {"levels": [d["level"] for d in o["diags"]], "ok": o["ok"], "model_variant": {"fix_verdict": fv}})
        else:
            ctx.corr_break("xlexer:lex", {"s": c.hex(), "text": repr(c)},
                           {"tokens": o.get("tokens"),
                            "diags": [(d["level"], d["class"], [sp[:2] for sp in d["spans"]]) for d in o["diags"]],
                            "model_variant": {"fix_flush": ff, "fix_esc": fe}})
    ctx.extra["distinct_verdict_observations"] = len(verdict_seen)
    ctx.extra["model_variant"] = {"fix_flush": ff, "fix_esc": fe, "fix_verdict": fv}
    ctx.extra["historical_lemmas"] = HISTORICAL
