"""C22 - Stripping source-retention options is exact."""
import os
from vlib import *
from termlib import clist, intern_numbers

ID = "C22"
# set to True (or VERIF_RETENTION_REPAIRED=1) once the recursive strip is committed to /repo
REPAIRED = os.environ.get("VERIF_RETENTION_REPAIRED", "0") == "1"
COQ_FILES = ["Common/Corr.v", "Model/Retention.v", "Proofs/Retention.v", "Props/C22.v", "Props/C22_repaired.v"]
PROPS = "Props/C22_repaired.v" if REPAIRED else "Props/C22.v"
THEOREMS_ASIS = ["C22_strip_removes_exactly_source_fields_refuted", "C22_strip_removes_exactly_source_fields_partial",
                 "C22_strip_removes_top_level_source_fields",
                 "C22_strip_preserves_rest_refuted", "C22_strip_preserves_rest_partial",
                 "C22_strip_idempotent", "C22_strip_pure", "C22_strip_locations_exact", "C22_trie_is_prefix_set"]
THEOREMS_REPAIRED = ["C22r_strip_removes_exactly_source_fields", "C22r_strip_preserves_rest", "C22r_strip_idempotent",
                     "C22r_strip_pure", "C22r_strip_locations_exact"]
THEOREMS = THEOREMS_REPAIRED if REPAIRED else THEOREMS_ASIS
AXIOMS_OK = []
TRUSTED = ["hand-written Gallina model of options/source_retention_options.go (Model/Retention.v): one element type for all "
           "descriptor kinds with the visited child collections and field numbers as a table, options messages as trees of "
           "(number, retention, value), object addresses for sharing / purity, sourcePathTrie",
           "correspondence harness (harness/cmd/retention): structural dump of the descriptor by protobuf-go reflection, "
           "Go pointers named by first-seen order",
           "protoc's behaviour is taken from the descriptor protoc embedded in protobuf-go's cmd/protoc-gen-go/testdata/retention/retention.pb.go"]
ASSUMPTIONS = ["protoreflect Range visits exactly the populated known fields (incl. recognised extensions) and never the unknown ones; "
               "message.New() gives an empty message; Set(field, messageValue) stores the same object (sharing)",
               "the order in which Range visits fields is irrelevant: the set of paths added to the trie is what matters (proved: C22_trie_is_prefix_set)",
               "an options message with no field and no unknown bytes is identified with an absent one (the code stores nil, protoc keeps it empty)",
               "map-typed option fields are not generated and are opaque scalars in the model (neither the code nor the proposed repair descends into map values)",
               "the path stack of the Go code (append into a shared backing array) is modelled by immutable lists: every pushed path is consumed before its sibling is pushed"]

KEY_NESTED = "nested-source-retention-field-kept"
KEY_UNKNOWN = "unknown-fields-dropped"

KINDS = {"file": "KFile", "msg": "KMsg", "field": "KField", "oneof": "KOneof", "extrange": "KExtRange",
         "enum": "KEnum", "enumval": "KEnumVal", "svc": "KSvc", "method": "KMethod"}
OPTS_TAG = {"file": 8, "msg": 7, "field": 8, "oneof": 2, "extrange": 3, "enum": 3, "enumval": 3, "svc": 3, "method": 4}
SLOT_TAGS = {"file": [4, 5, 7, 6], "msg": [2, 8, 5, 3, 4, 6], "enum": [2], "svc": [2]}
OPT_KINDS = [("file", "FileOptions"), ("msg", "MessageOptions"), ("field", "FieldOptions"), ("oneof", "OneofOptions"),
             ("extrange", "ExtensionRangeOptions"), ("enum", "EnumOptions"), ("enumval", "EnumValueOptions"),
             ("svc", "ServiceOptions"), ("method", "MethodOptions")]
RET_TEXT = ["", "retention = RETENTION_UNKNOWN", "retention = RETENTION_RUNTIME", "retention = RETENTION_SOURCE"]


# ---------------------------------------------------------------- generation of .proto sources
class Schema:
    """Option schema: messages T1..T3 (Tn refers to T(n-1) and to itself) and, per options kind,
    six extensions (int, string, message, repeated message, repeated int, second message)."""

    def __init__(self, rng, p_source):
        self.rng = rng

        def r():
            if rng.chance(p_source, 100):
                return 3
            return rng.choice([0, 0, 1, 2])
        self.t = {n: {f: r() for f in ("a", "s", "m", "r", "ri", "self")} for n in (1, 2, 3)}
        self.x = {k: {f: r() for f in ("i", "s", "m", "r", "ri", "m2")} for k, _ in OPT_KINDS}

    def text(self):
        def o(r):
            return " [%s]" % RET_TEXT[r] if r else ""
        out = ['syntax = "proto2";', "package o;", 'import "google/protobuf/descriptor.proto";']
        for n in (1, 2, 3):
            t = self.t[n]
            out.append("message T%d {" % n)
            out.append("  optional int32 a = 1%s;" % o(t["a"]))
            out.append("  optional string s = 2%s;" % o(t["s"]))
            if n > 1:
                out.append("  optional T%d m = 3%s;" % (n - 1, o(t["m"])))
                out.append("  repeated T%d r = 4%s;" % (n - 1, o(t["r"])))
            out.append("  repeated int32 ri = 5%s;" % o(t["ri"]))
            out.append("  optional T%d self = 6%s;" % (n, o(t["self"])))
            out.append("}")
        for k, msg in OPT_KINDS:
            x = self.x[k]
            out.append("extend google.protobuf.%s {" % msg)
            out.append("  optional int32 %s_i = 50001%s;" % (k, o(x["i"])))
            out.append("  optional string %s_s = 50002%s;" % (k, o(x["s"])))
            out.append("  optional T3 %s_m = 50003%s;" % (k, o(x["m"])))
            out.append("  repeated T3 %s_r = 50004%s;" % (k, o(x["r"])))
            out.append("  repeated int32 %s_ri = 50005%s;" % (k, o(x["ri"])))
            out.append("  optional T2 %s_m2 = 50006%s;" % (k, o(x["m2"])))
            out.append("}")
        return "\n".join(out) + "\n"

    def lit(self, n, depth):
        """a message literal for Tn"""
        rng = self.rng
        parts = []
        if rng.chance(1, 2):
            parts.append("a: %d" % rng.range(-3, 9))
        if rng.chance(1, 3):
            parts.append('s: "%s"' % rng.choice(["x", "yy", ""]))
        if n > 1 and depth < 3:
            if rng.chance(1, 2):
                parts.append("m %s" % self.lit(n - 1, depth + 1))
            for _ in range(rng.choice([0, 0, 1, 2, 3])):
                parts.append("r %s" % self.lit(n - 1, depth + 1))
        for _ in range(rng.choice([0, 0, 0, 1, 2])):
            parts.append("ri: %d" % rng.range(0, 5))
        if depth < 3 and rng.chance(1, 4):
            parts.append("self %s" % self.lit(n, depth + 1))
        return "{ " + " ".join(parts) + " }"

    def options(self, k, p_any):
        """list of (name, value) option settings for an element of kind k"""
        rng = self.rng
        if not rng.chance(p_any, 100):
            return []
        out = []
        if rng.chance(1, 2):
            out.append(("(o.%s_i)" % k, str(rng.range(0, 9))))
        if rng.chance(1, 3):
            out.append(("(o.%s_s)" % k, '"v%d"' % rng.range(0, 3)))
        if rng.chance(1, 2):
            out.append(("(o.%s_m)" % k, self.lit(3, 1)))
        for _ in range(rng.choice([0, 0, 1, 2])):
            out.append(("(o.%s_r)" % k, self.lit(3, 1)))
        for _ in range(rng.choice([0, 0, 1, 2])):
            out.append(("(o.%s_ri)" % k, str(rng.range(0, 9))))
        if rng.chance(1, 3):
            out.append(("(o.%s_m2)" % k, self.lit(2, 1)))
        if k in ("msg", "field", "enum", "enumval", "svc", "method") and rng.chance(1, 5):
            out.append(("deprecated", "true"))
        return out


def stmts(opts, ind):
    return "".join("%soption %s = %s;\n" % (ind, n, v) for n, v in opts)


def bracket(opts):
    return " [%s]" % ", ".join("%s = %s" % (n, v) for n, v in opts) if opts else ""


def gen_main(rng, sc, p_any):
    names = iter("N%d" % i for i in range(10000))
    out = ['syntax = "proto2";', 'import "opts.proto";']
    out.append(stmts(sc.options("file", p_any), ""))

    def enum(ind):
        n = next(names)
        s = "%senum %s {\n" % (ind, n)
        s += stmts(sc.options("enum", p_any), ind + "  ")
        for i in range(rng.range(1, 3)):
            s += "%s  %s_V%d = %d%s;\n" % (ind, n, i, i, bracket(sc.options("enumval", p_any)))
        return s + ind + "}\n"

    def msg(ind, depth):
        n = next(names)
        s = "%smessage %s {\n" % (ind, n)
        s += stmts(sc.options("msg", p_any), ind + "  ")
        num = 1
        for _ in range(rng.range(0, 3)):
            s += "%s  optional int32 f%d = %d%s;\n" % (ind, num, num, bracket(sc.options("field", p_any)))
            num += 1
        for _ in range(rng.choice([0, 0, 1])):
            s += "%s  oneof oo%d {\n" % (ind, num)
            s += stmts(sc.options("oneof", p_any), ind + "    ")
            for _ in range(rng.range(1, 2)):
                s += "%s    int32 f%d = %d%s;\n" % (ind, num, num, bracket(sc.options("field", p_any)))
                num += 1
            s += ind + "  }\n"
        lo = 100
        for _ in range(rng.choice([0, 0, 1, 2])):
            rngs = ["%d to %d" % (lo, lo + 9)]
            if rng.chance(1, 3):
                rngs.append("%d" % (lo + 20))
            s += "%s  extensions %s%s;\n" % (ind, ", ".join(rngs), bracket(sc.options("extrange", p_any)))
            lo += 50
        if depth < 2:
            for _ in range(rng.choice([0, 0, 1, 2])):
                s += msg(ind + "  ", depth + 1)
        for _ in range(rng.choice([0, 0, 1])):
            s += enum(ind + "  ")
        if rng.chance(1, 4):
            s += "%s  extend Ext { optional int32 x%s = %d%s; }\n" % (ind, n, 1000 + int(n[1:]), bracket(sc.options("field", p_any)))
        return s + ind + "}\n"

    out.append("message Ext { extensions 1000 to 9999; }\n")
    for _ in range(rng.range(0, 2)):
        out.append(msg("", 0))
    for _ in range(rng.choice([0, 1, 1, 2])):
        out.append(enum(""))
    for _ in range(rng.choice([0, 0, 1])):
        n = next(names)
        out.append("extend Ext { optional int32 x%s = %d%s; }\n" % (n, 1000 + int(n[1:]), bracket(sc.options("field", p_any))))
    for _ in range(rng.choice([0, 0, 1, 2])):
        n = next(names)
        s = "service %s {\n" % n + stmts(sc.options("svc", p_any), "  ")
        for i in range(rng.range(0, 2)):
            mo = sc.options("method", p_any)
            s += "  rpc R%d(Ext) returns (Ext)%s\n" % (i, " {\n" + stmts(mo, "    ") + "  }" if mo else ";")
        out.append(s + "}\n")
    return "\n".join(out)


OPTS_FIXED = '''syntax = "proto2";
package o;
import "google/protobuf/descriptor.proto";
message Inner {
  optional int32 keep = 1;
  optional int32 src = 2 [retention = RETENTION_SOURCE];
  optional Inner child = 3;
  repeated Inner kids = 4;
  optional int32 rt = 5 [retention = RETENTION_RUNTIME];
}
extend google.protobuf.MessageOptions {
  optional Inner mopt = 50001;
  optional Inner msrc = 50002 [retention = RETENTION_SOURCE];
  optional int32 mint = 50003;
}
'''


def corpus():
    def c(main, **kw):
        d = {"files": {"opts.proto": OPTS_FIXED, "main.proto": 'syntax = "proto2";\nimport "opts.proto";\n' + main},
             "main": "main.proto", "sci": True, "asis": True}
        d.update(kw)
        return d
    out = [
        # smallest nested witness: one message option whose value holds a source-retention field
        c("message M { option (o.mopt) = { src: 2 }; }"),
        c("message M { option (o.mopt) = { keep: 1 src: 2 }; }", sci=False),
        c("message M { option (o.mopt) = { keep: 1 child { src: 3 keep: 4 } kids { src: 5 } kids { keep: 6 } }; option (o.mint) = 7; optional int32 f = 1; }"),
        # top level: removed field next to a kept one; everything removed; nothing to remove
        c("message N { option (o.mopt) = { keep: 1 }; option (o.msrc) = { keep: 1 }; }"),
        c("message P { option (o.msrc) = { keep: 1 }; }"),
        c("message P { option (o.msrc) = { keep: 1 }; }", sci=False),
        c("message Q { option (o.mint) = 1; message R { option (o.msrc) = {}; } }"),
        c("message Q { optional int32 f = 1 [deprecated = true]; }"),
        # unknown (unparsed) fields in an options message that is rebuilt / left alone
        c("message N { option (o.mopt) = { keep: 1 }; option (o.msrc) = { keep: 1 }; }", inject=[[1, 777, "aa"]]),
        c("message N { option (o.msrc) = { keep: 1 }; }", inject=[[1, 777, "aa"]]),
        c("message N { option (o.mopt) = { keep: 1 }; }", inject=[[1, 777, "aa"]]),
        c("message N { option (o.mint) = 3; option (o.msrc) = { keep: 1 }; }", asis=False, drop_ext=[50003]),
        # unknown fields on the descriptor message itself (lost by shallowCopy when the element is copied)
        c("message N { option (o.msrc) = { keep: 1 }; optional int32 f = 1; }", inject=[[1, 777, "aa", "elem"], [2, 778, "bb", "elem"]]),
        # descriptor.proto's own source-retention field: extension declarations
        c('message D { extensions 4 to 1000 [declaration = { number: 4 full_name: ".foo" type: "int32" }, verification = DECLARATION]; '
          'optional int32 f = 1 [deprecated = true]; }'),
    ]
    return out


# ---------------------------------------------------------------- property evaluated on the dumps
def iter_elems(e, path=()):
    yield e, path
    tags = SLOT_TAGS.get(e["k"], [])
    for t, slot in zip(tags, e["s"]):
        for i, c in enumerate(slot):
            yield from iter_elems(c, path + (t, i))


def source_fields(m, depth=1, path=()):
    """(depth, path) of every source-retention field in a message dump"""
    for num, r, v in m["f"]:
        if r == 2:
            yield depth, path + (num,)
        else:
            for sub, p2 in sub_msgs(v, path + (num,)):
                yield from source_fields(sub, depth + 1, p2)


def sub_msgs(v, path):
    if "m" in v:
        yield v["m"], path
    elif "l" in v:
        for i, it in enumerate(v["l"]):
            if "m" in it:
                yield it["m"], path + (i,)


def prune_val(v, keep_unknown):
    if "s" in v:
        return ("s", v["s"])
    if "m" in v:
        return ("m", prune_msg(v["m"], keep_unknown))
    return ("l", tuple(prune_val(i, keep_unknown) for i in v["l"]))


def prune_msg(m, keep_unknown):
    return (tuple((n, prune_val(v, keep_unknown)) for n, r, v in m["f"] if r != 2), m["u"] if keep_unknown else "")


def prune_elem(e, keep_unknown):
    o = None
    if e["o"] is not None:
        o = prune_msg(e["o"], keep_unknown)
        if o == ((), ""):
            o = None
    return (e["k"], e["r"], e["u"] if keep_unknown else "", o,
            tuple(tuple(prune_elem(c, keep_unknown) for c in s) for s in e["s"]))


def erase_val(v):
    if "s" in v:
        return ("s", v["s"])
    if "m" in v:
        return ("m", erase_msg(v["m"]))
    return ("l", tuple(erase_val(i) for i in v["l"]))


def erase_msg(m):
    return (tuple((n, r, erase_val(v)) for n, r, v in m["f"]), m["u"])


def erase_elem(e):
    return (e["k"], e["r"], e["u"], None if e["o"] is None else erase_msg(e["o"]),
            tuple(tuple(erase_elem(c) for c in s) for s in e["s"]),
            None if e.get("sci") is None else tuple((tuple(p), d) for p, d in e["sci"]))


def removed_paths_msg(b, a, path, out):
    """paths of the option fields present in message dump b and absent from a (same message before/after)"""
    af = {n: v for n, r, v in a["f"]}
    for n, r, v in b["f"]:
        if n not in af:
            out.append(path + (n,))
            continue
        w = af[n]
        if "m" in v and "m" in w:
            removed_paths_msg(v["m"], w["m"], path + (n,), out)
        elif "l" in v and "l" in w and len(v["l"]) == len(w["l"]):
            for i, (x, y) in enumerate(zip(v["l"], w["l"])):
                if "m" in x and "m" in y:
                    removed_paths_msg(x["m"], y["m"], path + (n, i), out)


def removed_paths(before, after):
    out = []
    for (b, p), (a, _) in zip(iter_elems(before), iter_elems(after)):
        op = p + (OPTS_TAG[b["k"]],)
        if b["o"] is None:
            continue
        if a["o"] is None:
            if b["o"]["f"]:
                out.append(op)
            continue
        removed_paths_msg(b["o"], a["o"], op, out)
    return out


def oracle(ctx, case, o):
    """the property itself, evaluated on what the real code did"""
    before, after, again = o["before"], o["after"], o["again"]
    small = {"files": case["files"], "main": case["main"], "sci": case.get("sci"), "inject": case.get("inject"),
             "drop_ext": case.get("drop_ext"), "asis": case.get("asis")}
    # 1. no source-retention field survives, at any depth
    for e, p in iter_elems(after):
        if e["o"] is None:
            continue
        for depth, fp in source_fields(e["o"]):
            key = KEY_NESTED if depth > 1 else "top-level-source-retention-field-kept"
            ctx.violation(key, "a field declared with source retention is still present after the strip "
                          "(%s, element path %s, option field path %s, nesting depth %d)" % (e["k"], list(p), list(fp), depth),
                          dict(small, element_path=list(p), option_path=list(fp)))
            break
    # 2. everything else is unchanged
    if len(list(iter_elems(before))) != len(list(iter_elems(after))):
        ctx.violation("descriptor-shape-changed", "the stripped file has a different element tree", small)
        return
    if prune_elem(before, True) != prune_elem(after, True):
        if prune_elem(before, False) == prune_elem(after, False):
            ctx.violation(KEY_UNKNOWN, "unknown (unparsed) fields of a message that the strip rebuilt are missing from the result", small)
        else:
            ctx.violation("non-source-field-changed", "a field that is not declared with source retention differs after the strip", small)
    # 3. idempotent
    if erase_elem(after) != erase_elem(again):
        ctx.violation("not-idempotent", "stripping the stripped file changes it again", small)
    # 4. the input is not modified
    if not o["input_same"] or o["input_after"] != before:
        ctx.violation("input-mutated", "the input descriptor was modified by the strip", small)
    # 5. source code info: exactly the locations under the removed options go
    if before.get("sci") is None:
        if after.get("sci") is not None:
            ctx.violation("location-list-invented", "source code info appeared", small)
        return
    rem = removed_paths(before, after)
    want = [l for l in before["sci"] if not any(tuple(l[0][:len(q)]) == q for q in rem)]
    got = after.get("sci")
    if got is None:
        ctx.violation("location-wrongly-removed", "source code info disappeared", small)
    elif got != want:
        gs = {(tuple(p), d) for p, d in got}
        ws = {(tuple(p), d) for p, d in want}
        if gs - ws:
            ctx.violation("location-kept-under-removed-option", "a location under a removed option survived: %s" % sorted(gs - ws)[:3],
                          dict(small, removed_option_paths=[list(q) for q in rem]))
        else:
            ctx.violation("location-wrongly-removed", "a location that does not point into a removed option is gone or reordered: %s"
                          % sorted(ws - gs)[:3], dict(small, removed_option_paths=[list(q) for q in rem]))


# ---------------------------------------------------------------- dumps as Coq terms
class Intern:
    def __init__(self):
        self.t = {}

    def __call__(self, s):
        if s not in self.t:
            self.t[s] = len(self.t) + 1
        return self.t[s]


def unk_term(it, u):
    return "NN" if u == "" else "(NC %d NN)" % it("u:" + u)


RET_COQ = ["RUnset", "RRuntime", "RSource"]


def val_term(it, v):
    if "s" in v:
        return "(VScalar %d)" % it("s:" + v["s"])
    if "m" in v:
        m = v["m"]
        return "(VMsg %d %s %s)" % (m["a"], flds_term(it, m["f"]), unk_term(it, m["u"]))
    return "(VList %s)" % clist("VC", "VN", [val_term(it, i) for i in v["l"]])


def flds_term(it, fs):
    return clist("FC", "FN", ["(fl %d %s %s)" % (n, RET_COQ[r], val_term(it, v)) for n, r, v in fs])


def opts_term(it, o):
    if o is None:
        return "ON"
    return "(OS %d %s %s)" % (o["a"], flds_term(it, o["f"]), unk_term(it, o["u"]))


def elem_term(it, e):
    return "(Elem %s %d %s %d %s %s)" % (
        KINDS[e["k"]], e["a"], opts_term(it, e["o"]), it("r:" + e["r"]), unk_term(it, e["u"]),
        clist("SC", "SN", [clist("EC", "EN", [elem_term(it, c) for c in s]) for s in e["s"]]))


def file_term(it, e):
    if e.get("sci") is None:
        sci = "CN"
    else:
        sci = "(CS %d %s)" % (e["sa"], clist("LC", "LN", ["(lo %s %d)" % (clist("NC", "NN", [str(x) for x in p]), it("l:" + d))
                                                           for p, d in e["sci"]]))
    return "(File %s %s)" % (elem_term(it, e), sci)


def case_term(o):
    it = Intern()
    return "RC %s %d %s %s %s %d %s %s" % (
        coq_bool(REPAIRED), o["n_input"], file_term(it, o["before"]), file_term(it, o["after"]), coq_bool(o["same_ptr"]),
        o["n_after"], "FileNone" if o["again"] == o["after"] else "(FileSome %s)" % file_term(it, o["again"]), coq_bool(o["again_same_ptr"]))


HEADER = ("From Coq Require Import List NArith Bool.\nImport ListNotations.\n"
          "From PV Require Import Common.Corr Model.Retention.\nOpen Scope N_scope.\n"
          "Definition NN : list N := nil. Definition NC (x : N) (l : list N) : list N := cons x l.\n"
          "Definition FN : list ofld := nil. Definition FC (x : ofld) (l : list ofld) : list ofld := cons x l.\n"
          "Definition VN : list oval := nil. Definition VC (x : oval) (l : list oval) : list oval := cons x l.\n"
          "Definition EN : list elem := nil. Definition EC (x : elem) (l : list elem) : list elem := cons x l.\n"
          "Definition SN : list (list elem) := nil. Definition SC (x : list elem) (l : list (list elem)) : list (list elem) := cons x l.\n"
          "Definition LN : list loc := nil. Definition LC (x : loc) (l : list loc) : list loc := cons x l.\n"
          "Definition fl (n : N) (r : ret) (v : oval) : ofld := (n, r, v).\n"
          "Definition lo (p : list N) (d : N) : loc := (p, d).\n"
          "Definition ON : option omsg := None. Definition OS (a : N) (fs : list ofld) (u : list N) : option omsg := Some (a, fs, u).\n"
          "Definition CN : option (N * list loc) := None. Definition CS (a : N) (l : list loc) : option (N * list loc) := Some (a, l).\n"
          "Definition FileNone : option file := None. Definition FileSome (f : file) : option file := Some f.\n")


def golden_case():
    d = os.path.join(VERIF, "corpus", "C22")
    pre = "cmd/protoc-gen-go/testdata/retention/"
    return {"files": {pre + "options_message.proto": open(os.path.join(d, "options_message.proto")).read(),
                      pre + "retention.proto": open(os.path.join(d, "retention.proto")).read()},
            "main": pre + "retention.proto", "golden": True, "asis": True, "sci": False}


def run(ctx):
    rng = ctx.rng
    cases = corpus()
    g = golden_case()
    cases.append(dict(g, golden=False, sci=False))
    n_random = ctx.budget(170, 3000)
    for i in range(n_random):
        sc = Schema(rng, rng.choice([0, 15, 30, 60]))
        p_any = rng.choice([30, 60, 90])
        c = {"files": {"opts.proto": sc.text(), "main.proto": gen_main(rng, sc, p_any)}, "main": "main.proto",
             "sci": rng.chance(1, 3), "asis": rng.chance(3, 4)}
        if rng.chance(1, 12):
            c["inject"] = [[rng.range(0, 12), 700 + rng.range(0, 3), "aa" * rng.range(1, 3)] + (["elem"] if rng.chance(1, 3) else [])
                           for _ in range(rng.range(1, 3))]
        if not c["asis"] and rng.chance(1, 6):
            c["drop_ext"] = [rng.choice([50001, 50002, 50005])]
        cases.append(c)
    ctx.rule = ("corpus of 14 hand-written files (smallest witnesses, all-removed, nothing-to-remove, injected unknown fields, extension "
                "declarations) + protobuf-go's protoc-gen-go retention test file (compared with the descriptor protoc embedded) + random: "
                "a generated option schema (three message levels, six extensions per options kind, retention of every field drawn from "
                "none/UNKNOWN/RUNTIME/SOURCE) and a generated file using the options on every element kind with message literals up to "
                "three levels deep; with and without source info; compiled descriptor as is or re-read with the file's resolver; some with "
                "injected unknown fields. distinct = distinct (sources, flags); non-trivial = at least one source-retention field is set somewhere")
    outs = ctx.impl("retention", cases + [g], shards=None)
    gold = outs.pop()
    terms, meta = [], []
    for c, o in zip(cases, outs):
        if "compile_errors" in o:
            raise RuntimeError("generated file does not compile: %s\n%s" % (o["compile_errors"][:2], c["files"]["main.proto"]))
        if "crash" in o or "panic" in o or "err" in o:
            ctx.corr_break("retention", {"main": c["files"][c["main"]]}, o)
            ctx.violation("strip-failed", "StripSourceRetentionOptionsFromFile failed or panicked", {"case": c, "observed": o})
            continue
        has_src = any(True for e, _ in iter_elems(o["before"]) if e["o"] is not None for _ in source_fields(e["o"]))
        nested = any(d > 1 for e, _ in iter_elems(o["before"]) if e["o"] is not None for d, _ in source_fields(e["o"]))
        ctx.count((c["files"][c["main"]], c["files"].get("opts.proto"), c.get("sci"), c.get("asis"), str(c.get("inject")), str(c.get("drop_ext"))),
                  has_src, "nested-source" if nested else ("top-level-source-only" if has_src else "no-source"))
        oracle(ctx, c, o)
        terms.append(case_term(o))
        meta.append((c, o))
    ctx.sample({"main.proto": cases[2]["files"]["main.proto"], "sci": True})
    ctx.sample({"main.proto": cases[-1]["files"]["main.proto"][:1500], "opts.proto": cases[-1]["files"]["opts.proto"][:600]})
    # protoc's own result for the protobuf-go retention test file
    if "golden_diffs" not in gold:
        ctx.violation("golden-run-failed", "the protoc-gen-go retention test file could not be compiled / stripped", {"observed": gold})
    else:
        ctx.count(("golden",), True, "protoc-golden")
        ctx.extra["protoc_golden"] = {"options_messages_compared": gold["compared"], "differences": len(gold["golden_diffs"])}
        for d in gold["golden_diffs"]:
            ctx.violation(KEY_NESTED, "options of %s differ from what protoc embedded for cmd/protoc-gen-go/testdata/retention/retention.proto "
                          "(got %s, protoc %s)" % (d["at"] or "the file", d["got"], d["protoc"]),
                          {"file": "corpus/C22/retention.proto", "element": d["at"], "got": d["got"], "protoc": d["protoc"]})
            break
    # the model is evaluated inside coqc on the cases, in generation order (corpus first), that fit a budget of term
    # text (reading the terms is what costs time); every case was already judged by the direct oracle above
    budget = ctx.budget(1200000, 40000000)
    picked, used = [], 0
    for k, t in enumerate(terms):
        if used + len(t) <= budget:
            picked.append(k)
            used += len(t)
    ctx.extra["model_evaluated_in_coq"] = {"cases": len(picked), "of": len(terms), "term_bytes": used}
    header, pterms = intern_numbers(HEADER, [terms[k] for k in picked], "N")
    # shards of roughly equal text size
    order = sorted(range(len(pterms)), key=lambda i: -len(pterms[i]))
    nsh = max(1, min(NCPU, len(pterms) // 4))
    shard_of = {}
    loads = [0] * nsh
    for i in order:
        j = loads.index(min(loads))
        shard_of[i] = j
        loads[j] += len(pterms[i])
    by_shard = sorted(range(len(pterms)), key=lambda i: shard_of[i])
    size = max(1, max(sum(1 for i in by_shard if shard_of[i] == j) for j in range(nsh)))
    padded = []
    for j in range(nsh):
        members = [i for i in by_shard if shard_of[i] == j]
        padded += members + [None] * (size - len(members))
    pad_term = pterms[min(range(len(pterms)), key=lambda i: len(pterms[i]))]
    pad_from = min(range(len(pterms)), key=lambda i: len(pterms[i]))
    mism, err = coq_eval_mismatches("cases_C22", header, [pterms[i] if i is not None else pad_term for i in padded], "ret_chk",
                                    shard_size=size)
    if err:
        raise RuntimeError(err)
    mism = sorted({picked[padded[k] if padded[k] is not None else pad_from] for k in mism})
    for k in mism:
        c, o = meta[k]
        ctx.corr_break("retention:strip", {"main.proto": c["files"][c["main"]], "opts.proto": c["files"].get("opts.proto"),
                                           "sci": c.get("sci"), "asis": c.get("asis"), "inject": c.get("inject"), "drop_ext": c.get("drop_ext")},
                       {"same_ptr": o["same_ptr"], "again_same_ptr": o["again_same_ptr"]})
