"""C02 - Compiled descriptors equal protoc's."""
import itertools
from vlib import *
import miniproto_gen as G

ID = "C02"
COQ_FILES = G.COQ_MODEL_FILES + ["Proofs/LowerNames.v", "Proofs/Link.v", "Props/C02.v"]
PROPS = "Props/C02.v"
THEOREMS = ["C02_json_name_eq_protoc", "C02_map_entry_name_eq_protoc", "C02_oo_name_total", "C02_oo_name_is_synth",
            "C02_process_p3opt_total", "C02_synthetic_oneof_names_fresh", "C02_synthetic_oneof_names_eq_protoc",
            "C02_resolved_type_absolute", "C02_resolved_extendee_absolute", "C02_resolved_rpc_absolute", "C02_range_max", "C02_message_ranges_limit"]
AXIOMS_OK = []
TRUSTED = [
    "protoc is not available: its descriptors are specified by Model/ProtocDescriptor.v (ToJsonName, MapEntryName, GenerateSyntheticOneofs) and "
    "Model/SpecOracle.v (spec_compile); the specification is validated on every run against the protoc-made descriptors in internal/testdata/*.protoset, "
    "field by field on the projection (names, numbers, labels, types, type names, extendees, JSON names, oneof indices, proto3_optional, defaults, "
    "map entries, ranges, reserved names, dependencies)",
    "hand-written Gallina mirror of parser/result.go (descriptor construction), internal/util.go + internal/cases (JSONName, MapEntry), "
    "linker/resolve.go (type name rewriting) and the json_name / default pseudo-options (Model/Lower.v, Model/Validate.v)",
    "harness/cmd/miniproto (projection of FileDescriptorProto, source info stripped), generator and renderer in checks/miniproto_gen.py",
]
ASSUMPTIONS = [
    "theorems cover the naming functions (rule family F3 and the JSON name of F2) for all byte strings / all name sets; the construction of the descriptor "
    "from the source tree and the rewriting of type names (F5) are tied in by the differential oracle and the goldens only",
    "strings are byte lists; the Go code iterates runes, which is the same for ASCII identifiers (the generator and the name sweep use ASCII)",
    "interpreted option values other than json_name / default, float defaults and source info are outside the projection",
]

ALPHA = [ord(c) for c in "aZ_9"]
WIDE = [ord(c) for c in "abxyzABXYZ_0129"]


def run(ctx):
    rng = ctx.rng
    # 1. the naming functions on arbitrary ASCII strings
    strs = []
    for n in range(0, ctx.budget(5, 7) + 1):
        for t in itertools.product(ALPHA, repeat=n):
            strs.append(bytes(t))
    for _ in range(ctx.budget(400, 20000)):
        strs.append(bytes(rng.choice(WIDE) if rng.chance(5, 6) else rng.range(32, 126) for _ in range(rng.range(1, 24))))
    outs = ctx.impl("miniproto", [{"mode": "names", "s": s.hex()} for s in strs])
    terms, meta = [], []
    for s, o in zip(strs, outs):
        if "json" not in o:
            ctx.violation("panic", "JSONName / MapEntry panicked", {"s": s.hex(), "observed": o})
            continue
        ctx.count(("n", s), len(s) > 0, "names")
        terms.append("NameCase %s %s %s" % (G.cbytes(s), G.cbytes(bytes.fromhex(o["json"])), G.cbytes(bytes.fromhex(o["entry"]))))
        meta.append((s, o))
    bad, err = coq_eval_mismatches("cases_C02_n", G.HEADER, terms, "name_full_chk", shard_size=1500)
    if err:
        raise RuntimeError(err)
    if bad:
        sub = [terms[i] for i in bad]
        sbad, err = coq_eval_mismatches("cases_C02_ns", G.HEADER, sub, "name_spec_chk", shard_size=1500)
        mbad, err2 = coq_eval_mismatches("cases_C02_nm", G.HEADER, sub, "name_chk", shard_size=1500)
        if err or err2:
            raise RuntimeError(err or err2)
        for k in sbad:
            s, o = meta[bad[k]]
            ctx.violation("json-or-map-entry-name", "JSONName / MapEntry differ from protoc's ToJsonName / MapEntryName",
                          {"name": s.decode("latin-1"), "json_name": bytes.fromhex(o["json"]).decode("latin-1"),
                           "map_entry": bytes.fromhex(o["entry"]).decode("latin-1")})
        for k in mbad:
            s, o = meta[bad[k]]
            ctx.corr_break("miniproto:names", {"s": s.hex()}, {"observed": o})
    ctx.sample({"mode": "names", "s": "foo_bar__baz"})

    # 2. accepted programs: every compiled descriptor against the mirror and against the specification
    #    identifier shapes: every identifier of length <= 3 (4) over {a,Z,_,9}, X-prefixed look-alikes and random longer ones,
    #    each put wherever a descriptor entry is derived from a name (json_name, synthetic oneof, map entry, group field)
    shape_ids = G.shape_ids(rng, ctx.budget(3, 4), ctx.budget(40, 400))
    shapes = G.shape_sets(shape_ids)
    # enumerated rule strata: what max / the largest number means in every kind of range (range ends are part of the projection),
    # and the reserved names / ranges of messages and enums in both spellings (the accepted ones reach the comparison)
    rules = G.max_sets() + G.dup_sets()
    corpus = [(l, fs) for l, fs in G.CORPUS] + shapes + rules
    parsed = G.parse_sets(ctx, [fs for _, fs in corpus])
    cc = [("corpus:" + l, asts, fs) for (l, fs), (asts, why) in zip(corpus, parsed) if asts is not None and not why]
    shape_unfit = [(l, why) for (l, fs), (asts, why) in zip(corpus, parsed) if l.startswith("shape-") and (asts is None or why)]
    progs = G.gen_cases(rng, ctx.budget(30, 2500), ctx.budget(2, 3), small=(ctx.tier != "thorough"), extended=True, idshapes=True,
                        focus=("max_range", "reserved_dup"))
    texts = G.render_sets(rng, progs)
    allc = cc + [(label, files, t) for (label, files), t in zip(progs, texts)]
    outs = ctx.impl("miniproto", G.compile_inputs([t for _, _, t in allc], [[f["name"] for f in files] for _, files, _ in allc]))
    cases, terms = [], []
    for (label, files, t), o in zip(allc, outs):
        if "panic" in o or "crash" in o:
            ctx.violation("panic", "the compiler panicked or crashed", {"label": label, "files": t, "observed": o})
            continue
        if not o.get("ok"):
            continue
        ts = G.c02_terms(files, o)
        if ts is None:
            ctx.corr_break("miniproto:descriptor-missing", {"label": label, "files": t}, {"note": "an accepted file has no descriptor"})
            continue
        nfields = sum(len(m["fields"]) for fd in o["fds"] for m in fd["messages"])
        ctx.count((label, repr(sorted(G.plain_text(files).items()))), True,
                  "accepted:" + ("valid" if label == "valid" else "id-shape" if label.startswith("corpus:shape-") else
                                 "range-max" if label.startswith("corpus:max-") else "reserved-rules" if label.startswith("corpus:dup-") else "near-valid"))
        cases.append((label, files, t, o))
        terms.append(ts[0])
    for c in cases[:1] + cases[len(cc):len(cc) + 2]:
        ctx.sample({"label": c[0], "files": G.plain_text(c[1])})
    bad, err = coq_eval_mismatches("cases_C02_g", G.HEADER, terms, "c02_full_chk", shard_size=ctx.budget(max(8, len(terms) // (2 * NCPU) + 1), 50))
    if err:
        raise RuntimeError(err)
    nexc = 0
    if bad:
        sub = [terms[i] for i in bad]
        n = len(sub)
        probes = ["P2Model (%s)" % t for t in sub] + ["P2Spec (%s)" % t for t in sub] + ["P2Exc (%s)" % t for t in sub]
        pm, e1 = coq_eval_mismatches("cases_C02_gp", G.HEADER, probes, "c02_probe_chk", shard_size=max(4, (3 * n) // NCPU + 1))
        if e1:
            raise RuntimeError(e1)
        m_mis = set(i for i in pm if i < n)
        s_mis = set(i - n for i in pm if n <= i < 2 * n)
        x_mis = set(i - 2 * n for i in pm if i >= 2 * n)
        for k, i in enumerate(bad):
            label, files, t, o = cases[i]
            replay = {"label": label, "files": t, "roots": [f["name"] for f in files]}
            if k in s_mis:
                if k in x_mis:
                    nexc += 1
                    ctx.hist["documented-divergence"] = ctx.hist.get("documented-divergence", 0) + 1
                else:
                    ctx.violation("descriptor-differs-from-spec:" + label, "a compiled descriptor differs from the one the protoc specification "
                                  "gives for the same sources (projection: names, numbers, labels, types, type names, JSON names, oneofs, defaults, ranges)", replay)
            if k in m_mis:
                ctx.corr_break("miniproto:descriptor", replay, {"note": "mirror model and implementation disagree on a descriptor"})
    ctx.extra["documented_divergences_seen"] = nexc
    # the identifier-shape stratum must not be vacuous: how many of its file sets reach the comparison, and how many of
    # those the specification accepts (for the others the property says nothing)
    sh = [c for c in cases if c[0].startswith("corpus:shape-")]
    rej, err = G.cached_eval("cases_C02_shape_spec", [G.spec_term(c[1], True) for c in sh], "spec_valid_chk", max(8, len(sh) // (2 * NCPU) + 1))
    if err:
        raise RuntimeError(err)
    ctx.extra["identifier_shapes"] = {
        "identifiers": len(shape_ids), "file_sets": len(shapes), "outside_model_fragment": len(shape_unfit),
        "accepted_by_implementation": len(sh), "of_those_accepted_by_specification": len(sh) - len(rej),
        "specification_rejects": sorted(sh[i][0][len("corpus:"):] for i in rej)[:60],
        "outside_model_fragment_sample": [[l, w[:2]] for l, w in shape_unfit[:10]],
    }
    if len(sh) - len(rej) < len(shapes) // 2:
        ctx.corr_break("miniproto:identifier-shapes-vacuous", {"file_sets": len(shapes), "compared": len(sh) - len(rej)},
                       {"note": "fewer than half of the identifier-shape file sets are accepted by both sides: the stratum decides nothing"})
    # the range stratum must not be vacuous either: ranges written with max in message-set messages, ordinary messages and
    # enums must reach the comparison (accepted by the compiler) and be accepted by the specification
    mx = [c for c in cases if c[0].startswith("corpus:max-")]
    mrej, err = G.cached_eval("cases_C02_max_spec", [G.spec_term(c[1], True) for c in mx], "spec_valid_chk", max(8, len(mx) // (2 * NCPU) + 1))
    if err:
        raise RuntimeError(err)
    mrej = set(mrej)
    both = [c[0] for i, c in enumerate(mx) if i not in mrej]
    per = {k: sum(1 for l in both if (":" + k + "-") in l) for k in ("plain", "msgset", "enum")}
    ctx.extra["range_max_stratum"] = {"file_sets": len(G.max_sets()), "accepted_by_implementation": len(mx), "of_those_accepted_by_specification": len(both),
                                      "by_kind": per, "reserved_rule_file_sets_compared": sum(1 for c in cases if c[0].startswith("corpus:dup-"))}
    if min(per.values()) < 8:
        ctx.corr_break("miniproto:range-max-vacuous", per, {"note": "too few file sets of the range stratum are accepted by both sides: the stratum decides nothing"})
    ctx.rule = ("(a) ASCII strings: all of length <= %d over {a,Z,_,9} + random; (b) accepted file sets: boundary corpus, identifier shapes (every identifier of length <= %d "
                "over {a,Z,_,9}, X-prefixed look-alikes and random longer ones as proto3-optional field with and without declared names on its "
                "candidate chain, oneof member, map field, extension, group; proto2 / proto3 / editions), enumerated range rules (max and the largest number in "
                "extension / reserved / enum reserved ranges of ordinary and message-set messages, option before / after, nested either way; reserved names in "
                "both spellings), generated valid programs (field, oneof "
                "and group names of all identifier shapes) and accepted near-valid mutants; distinct = distinct string / canonical source text; a program case is non-trivial when it compiled "
                "(its descriptors are compared field by field with the mirror and with the protoc specification)" % (ctx.budget(5, 7), ctx.budget(3, 4)))

    ctx.extra["rule_families"] = {
        "F3 naming functions (JSONName, MapEntry, synthetic oneof names)": "theorem + oracle",
        "F5 construction of the descriptor from the source tree (order of fields / nested types / oneofs, labels, map entries, groups, proto3_optional)": "oracle + protoc-made goldens only",
        "type name rewriting to absolute names, MESSAGE vs ENUM": "oracle + goldens only (resolution itself: C15)",
        "default values (integers, bool, string, bytes escaping, enum)": "oracle + goldens only (escaping: C26)",
    }
    # 3. the protoc-made goldens: the specification and the mirror, run on the sources, must reproduce protoc's descriptors
    goldens, skipped = G.load_goldens(ctx, REPO)
    gterms_m, gterms_s = [], []
    for label, asts, obs in goldens:
        o = {"fds": [obs[f["name"]] for f in asts]}
        tm, ts = G.c02_terms(asts, o)
        gterms_m.append(tm)
        gterms_s.append(ts)
    sbad, err = G.cached_eval("cases_C02_gold_s", gterms_s, "spec_desc_chk", 1)
    if err:
        raise RuntimeError(err)
    mbad, err = G.cached_eval("cases_C02_gold_m", gterms_m, "c02_chk", 1)
    if err:
        raise RuntimeError(err)
    ctx.extra["spec_golden_agreement"] = {
        "protoset_file_sets": len(goldens), "protoset_files": sum(len(a) for _, a, _ in goldens),
        "protoset_outside_fragment": skipped,
        "spec_reproduces_protoc": len(goldens) - len(sbad), "spec_differs": [goldens[i][0] for i in sbad],
        "mirror_reproduces_protoc": len(goldens) - len(mbad), "mirror_differs": [goldens[i][0] for i in mbad],
    }
    for i in sbad:
        ctx.corr_break("spec-vs-protoc-golden", {"protoset": goldens[i][0]}, {"note": "the specification does not reproduce protoc's descriptors"})
    for i in mbad:
        ctx.corr_break("mirror-vs-protoc-golden", {"protoset": goldens[i][0]}, {"note": "the mirror run on the sources does not reproduce protoc's descriptors"})
