"""C32 - Line/column conversion round-trips (experimental/source/file.go)."""
import itertools
import time
from vlib import *

ID = "C32"
COQ_FILES = ["Common/Bytes.v", "Common/Corr.v", "Model/Utf8.v", "Model/Lines.v", "Model/SourceFile.v",
             "Proofs/Utf8.v", "Proofs/Lines.v", "Proofs/SourceFile.v", "Props/C32.v"]
PROPS = "Props/C32.v"
THEOREMS = ["C32_lines_spec", "C32_line_number_spec", "C32_location_in_range",
            "C32_inverse_location_roundtrip_refuted", "C32_inverse_location_roundtrip_partial",
            "C32_inverse_location_roundtrip_fails_outside_guard",
            "C32_fixed_inverse_location_roundtrip", "C32_eof_is_boundary", "C32_location_injective"]
AXIOMS_OK = []
TRUSTED = ["hand-written Gallina model of File.lines, location, inverseLocation, File.Location, File.InverseLocation "
           "(experimental/source/file.go) and of utf8.DecodeRune / the string range loop / utf16.RuneLen",
           "slices.BinarySearch is modelled by its contract on a sorted slice (smallest index with entry >= target)",
           "correspondence harness (harness/cmd/srcfile) + verif hooks source.VerifLines/VerifLocation/VerifInverseLocation"]
ASSUMPTIONS = ["length.TermWidth is not modelled (InverseLocation panics on it by design)",
               "a nil *File is not modelled",
               "Go ints are modelled as unbounded integers (texts far below 2^63 bytes)"]

KEY_MULTIBYTE = "eof-after-multibyte-rune"
KEY_EMPTYLAST = "eof-on-empty-last-line"

UNITS = ["UBytes", "UUTF16", "URunes"]
SYMS = [b"a", b"\n", "é".encode(), "€".encode(), "\U0001F600".encode()]
# fragments for random texts: ASCII, newlines, CR, tab, 2/3/4-byte characters, and pieces of invalid UTF-8
FRAGS = [b"a", b"b", b" ", b"\t", b"\n", b"\n", b"\r\n", "é".encode(), "ß".encode(), "€".encode(),
         "�".encode(), "\U0001F600".encode(), "\U00010000".encode(), "\U0010FFFF".encode(), "￿".encode(),
         "퟿".encode(), "".encode(),
         b"\x80", b"\xbf", b"\xc0\x80", b"\xc3", b"\xe2\x82", b"\xe2", b"\xed\xa0\x80", b"\xed\x9f\xbf",
         b"\xf4\x90\x80\x80", b"\xf4\x8f\xbf\xbf", b"\xf0\x9f\x98", b"\xf0\x80\x80\x80", b"\xff", b"\xf5", b"\xe0\x9f\xbf", b"\xe0\xa0\x80"]


def go_decode(b, i):
    """utf8.DecodeRune(b[i:]) written independently of the Coq model: (rune, size)."""
    n = len(b) - i
    if n < 1:
        return 0xFFFD, 0
    p0 = b[i]
    if p0 < 0x80:
        return p0, 1
    if p0 < 0xC2 or p0 > 0xF4:
        return 0xFFFD, 1
    if p0 < 0xE0:
        need, lo, hi = 2, 0x80, 0xBF
    elif p0 < 0xF0:
        need = 3
        lo, hi = (0xA0, 0xBF) if p0 == 0xE0 else ((0x80, 0x9F) if p0 == 0xED else (0x80, 0xBF))
    else:
        need = 4
        lo, hi = (0x90, 0xBF) if p0 == 0xF0 else ((0x80, 0x8F) if p0 == 0xF4 else (0x80, 0xBF))
    if n < need:
        return 0xFFFD, 1
    if not (lo <= b[i + 1] <= hi):
        return 0xFFFD, 1
    for k in range(2, need):
        if not (0x80 <= b[i + k] <= 0xBF):
            return 0xFFFD, 1
    if need == 2:
        return ((p0 & 0x1F) << 6) | (b[i + 1] & 0x3F), 2
    if need == 3:
        return ((p0 & 0x0F) << 12) | ((b[i + 1] & 0x3F) << 6) | (b[i + 2] & 0x3F), 3
    return ((p0 & 0x07) << 18) | ((b[i + 1] & 0x3F) << 12) | ((b[i + 2] & 0x3F) << 6) | (b[i + 3] & 0x3F), 4


def boundaries(b):
    """offsets reachable by decoding rune after rune from 0, with the width of the rune ending there"""
    out = {0: 0}
    i = 0
    while i < len(b):
        _, sz = go_decode(b, i)
        i += sz
        out[i] = sz
    return out


def coq_obs(ob):
    if ob is None:
        return "None"
    l, c, i = ob
    return "(Some (%d%%nat, %s, %s))" % (l, coq_Z(c), "None" if i is None else "(Some %s)" % coq_Z(i))


def run(ctx):
    rng = ctx.rng
    maxsyms = ctx.budget(4, 5)
    texts = [b"", b"\n", "é".encode(), b"a\n", b"a", "a\né".encode(), b"\r\n", b"a\r\nb\r\n", b"\n\n", b"\xef\xbb\xbfa\n",
             b"\x80", b"\xc3", b"a\xe2\x82", b"\xed\xa0\x80", b"\xf4\x90\x80\x80", b"\xc0\x80\n", b"a\n\xf0\x9f\x98",
             "x\U0001F600".encode(), "\U0001F600\n".encode(), "€".encode(), b"\tx\n\ty"]
    ncorpus = len(texts)
    for n in range(0, maxsyms + 1):
        for t in itertools.product(SYMS, repeat=n):
            texts.append(b"".join(t))
    nexh = len(texts) - ncorpus
    for _ in range(ctx.budget(300, 20000)):
        n = rng.range(1, 12)
        texts.append(b"".join(rng.choice(FRAGS) for _ in range(n)))
    for _ in range(ctx.budget(100, 5000)):
        texts.append(bytes(rng.choice([0x0a, 0x61, 0x80, 0xbf, 0xc3, 0xa9, 0xe2, 0x82, 0xac, 0xf0, 0x9f, 0x98, 0x80, 0xed, 0xa0, 0xf4, 0x90])
                           if rng.chance(4, 5) else rng.below(256) for _ in range(rng.range(1, 16))))
    ctx.rule = ("texts: hand-picked corpus (%d) + all concatenations of <= %d symbols from {a, LF, U+00E9, U+20AC, U+1F600} (%d) + random "
                "concatenations of ASCII/CR/LF/tab/2-3-4-byte characters/invalid UTF-8 fragments + random byte strings; every offset "
                "0..len (and len+1 for the panic) x {Bytes, UTF16, Runes} through File.Location/File.InverseLocation and through the "
                "unexported functions; extra (line, column) queries for inverseLocation beyond the round trip. distinct = distinct "
                "(text, offset, unit); non-trivial = offset > 0" % (ncorpus, maxsyms, nexh))

    t_start = time.time()
    outs = ctx.impl("srcfile", [{"mode": "text", "text": t.hex()} for t in texts])
    terms, meta = [], []
    outside_guard = [0, 0]  # cases outside the guard of the partial theorem: seen, failing
    for ti, (t, o) in enumerate(zip(texts, outs)):
        if "crash" in o or "panic" in o:
            ctx.corr_break("srcfile", {"text": t.hex()}, o)
            ctx.violation("panic", "harness crashed on this text", {"text": t.hex(), "observed": o})
            continue
        tl = coq_N_list(t)
        terms.append("SFLines %s %s" % (tl, coq_nat_list(o["lines"])))
        meta.append(("lines", t, None, o["lines"]))
        bnd = boundaries(t)
        for ui, u in enumerate(UNITS):
            pub, raw = o["pub"][ui], o["raw"][ui]
            terms.append("SFPub %s %s %s" % (tl, u, coq_list(pub, coq_obs)))
            meta.append(("pub", t, u, pub))
            if ti < ncorpus or ti % 3 == 0 or ctx.tier == "thorough":   # the unexported functions: a third of the texts in the quick tier
                terms.append("SFRaw %s %s %s" % (tl, u, coq_list(raw, coq_obs)))
                meta.append(("raw", t, u, raw))
            # ---- direct oracle: the property on the implementation (exported API) ----
            for off, ob in enumerate(pub):
                ctx.count((t, off, u), off > 0, u + ("/boundary" if off in bnd else "/inside-character"))
                rep = {"text": t.hex(), "offset": off, "unit": u[1:], "observed": ob}
                if ob is None:
                    ctx.violation("panic", "File.Location panics for an offset inside the file", rep)
                    continue
                line, col, back = ob
                if line != 1 + t[:off].count(b"\n"):
                    ctx.violation("line-number", "File.Location(offset).Line != 1 + number of newlines before offset", rep)
                if off not in bnd:
                    continue
                bad_class = None
                if u != "UBytes" and off == len(t) and off > 0:
                    if t.endswith(b"\n"):
                        bad_class = KEY_EMPTYLAST
                    elif bnd[off] > 1:
                        bad_class = KEY_MULTIBYTE
                if bad_class:
                    outside_guard[0] += 1
                if back != off:
                    if bad_class:
                        outside_guard[1] += 1
                    ctx.violation(bad_class or "roundtrip",
                                  "File.InverseLocation(File.Location(offset)) != offset at a character boundary" +
                                  (" (%s)" % bad_class if bad_class else ""), rep)
    # extra inverse queries: columns past the end of a line, lines out of range
    qtexts = texts[:ncorpus] + [texts[ncorpus + k] for k in range(0, nexh, 7)] + texts[ncorpus + nexh:][: ctx.budget(200, 4000)]
    qins = []
    for t in qtexts:
        nl = t.count(b"\n") + 1
        qs = []
        for _ in range(6):
            qs.append([rng.range(0, nl + 1), rng.range(1, 8), rng.below(3)])
        qins.append({"mode": "inv", "text": t.hex(), "q": qs})
    qouts = ctx.impl("srcfile", qins)
    for qi, qo in zip(qins, qouts):
        if "crash" in qo or "panic" in qo:
            ctx.corr_break("srcfile:inv", qi, qo)
            continue
        t = bytes.fromhex(qi["text"])
        for (line, col, ui), r, p in zip(qi["q"], qo["r"], qo["p"]):
            ctx.count(("q", t, line, col, ui), True, "inverse-query")
            terms.append("SFInv %s %s %d%%nat %s %s %s" % (coq_N_list(t), UNITS[ui], line, coq_Z(col),
                                                         coq_opt(r, coq_Z), coq_opt(p, coq_Z)))
            meta.append(("inv", t, UNITS[ui], {"line": line, "column": col, "inverseLocation": r, "InverseLocation": p}))
    for t in (texts[1], texts[2], texts[ncorpus + 37], texts[-1]):
        ctx.sample({"text": t.hex()})

    header = ("From Coq Require Import List NArith ZArith Bool.\nImport ListNotations.\n"
              "From PV Require Import Common.Corr Model.Utf8 Model.Lines Model.SourceFile.\nOpen Scope N_scope.\n")
    t_coq = time.time()
    mism, err = coq_eval_mismatches("cases_C32", header, terms, "sf_chk", shard_size=700)
    if err:
        raise RuntimeError(err)
    variant = "as-is (pinned inverseLocation)"
    if mism:
        mism2, err = coq_eval_mismatches("cases_C32f", header, terms, "sf_chk_fixed", shard_size=700)
        if err:
            raise RuntimeError(err)
        if not mism2:
            variant, mism = "repaired inverseLocation (inverse_location_fixed)", []
        elif len(mism2) < len(mism):
            variant, mism = "neither; closest = repaired", mism2
        else:
            variant = "neither; closest = as-is"
    ctx.extra["timing_s"] = {"implementation_and_oracle": round(t_coq - t_start, 1), "model_in_coq": round(time.time() - t_coq, 1), "coq_terms": len(terms)}
    ctx.extra["model_variant_matching_implementation"] = variant
    ctx.extra["outside_guard_cases_seen_failing"] = outside_guard
    ctx.notes.append("theorems that apply to the implementation: " +
                     ("C32_fixed_inverse_location_roundtrip (full round trip)" if variant.startswith("repaired")
                      else "C32_inverse_location_roundtrip_partial / _refuted (pinned code)"))
    for k in mism:
        kind, t, u, obs = meta[k]
        ctx.corr_break("srcfile:" + kind, {"text": t.hex(), "unit": u}, {"observed": obs, "model_variant": variant})
    ctx.exhaustive = True
    ctx.extra["exhaustive_part"] = ("all texts of <= %d symbols over {a, LF, U+00E9, U+20AC, U+1F600}, every offset 0..len, "
                                    "the three units" % maxsyms)
