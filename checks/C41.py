"""C41 - Topological sort and prefix trie match their specifications (internal/toposort, internal/trie)."""
import itertools, re
from vlib import *

ID = "C41"
COQ_FILES = ["Common/Corr.v", "Model/Toposort.v", "Model/Trie.v", "Proofs/Toposort.v", "Proofs/Trie.v", "Props/C41.v"]
PROPS = "Props/C41.v"
THEOREMS = ["C41_sort_terminates", "C41_sort_ok_spec", "C41_sort_dag_spec", "C41_sort_cyclic_panics_iff",
            "C41_sort_cyclic_yields_all_refuted",
            "C41_sorter_state_reset_after_any_prefix", "C41_sorter_history_fresh", "C41_sorter_use_complete", "C41_sorter_use_cut",
            "C41_trie_prefixes_total", "C41_trie_prefixes_all_in_order", "C41_trie_get_longest_prefix"]
AXIOMS_OK = []
TRUSTED = ["hand-written Gallina models of toposort.Sorter.Sort/push (coq/Model/Toposort.v) and of trie.Trie.Insert/Prefixes/Get with "
           "nybbles.insert/step/has/set (coq/Model/Trie.v)",
           "trie index widths (uint8..uint64) are abstracted to unbounded tables: a slot is an optional natural number, the width-overflow "
           "path of insert and grow[] are not modelled (grow is exercised by the check with tries of more than 255 nodes)",
           "the hasValue bitset is modelled as a list of booleans; the Go map of sort states as a total function with default unsorted",
           "correspondence harness harness/cmd/topotrie (nodes and keys are ints, Key = identity; trie values are ints)"]
ASSUMPTIONS = ["a consumer either takes every element or breaks on its k-th element; re-entrant use of a Sorter (the iterating flag) is not modelled",
               "graphs are finite adjacency lists; nodes outside the list have no children",
               "trie keys are byte strings (every element below 256)"]

KEY_CYCLE = "toposort-reachable-cycle-panics"
PANIC_RE = re.compile(r"^protocompile/internal: cycle detected: (.*) -> (-?\d+)$")


def reach(adj, roots):
    seen, todo = set(), list(roots)
    while todo:
        v = todo.pop()
        if v in seen:
            continue
        seen.add(v)
        if 0 <= v < len(adj):
            todo += adj[v]
    return seen


def has_reachable_cycle(adj, roots):
    r = reach(adj, roots)
    color = {}

    def dfs(v):
        color[v] = 1
        for c in (adj[v] if 0 <= v < len(adj) else []):
            if color.get(c) == 1 or (c not in color and dfs(c)):
                return True
        color[v] = 2
        return False
    import sys
    sys.setrecursionlimit(10000)
    return any(v not in color and dfs(v) for v in sorted(r))


def judge_use(ctx, adj, roots, take, o, ctxinfo):
    """Direct oracle for one iteration (complete or abandoned after take elements) of a sort."""
    cyc = has_reachable_cycle(adj, roots)
    rep = dict(ctxinfo, adj=adj, roots=roots, take=take, observed=o)
    if "panic" in o:
        if cyc and PANIC_RE.match(o["panic"]):
            ctx.violation(KEY_CYCLE, "Sort panics (cycle detected) instead of yielding each reachable node once", rep)
        else:
            ctx.violation("toposort-panic", "Sort panicked" + ("" if cyc else " on an acyclic graph"), rep)
        return
    out = o["out"]
    want = reach(adj, roots)
    if len(set(out)) != len(out):
        ctx.violation("toposort-duplicate", "a node is yielded more than once", rep)
    elif o.get("stopped") and not (len(out) == take and set(out) <= want):
        ctx.violation("toposort-not-reachable-set", "an abandoned iteration yielded a node that is not reachable from its roots", dict(rep, reachable=sorted(want)))
    elif not o.get("stopped") and set(out) != want:
        ctx.violation("toposort-not-reachable-set", "the yielded nodes are not exactly the reachable nodes", dict(rep, reachable=sorted(want)))
    elif not cyc:
        pos = {v: k for k, v in enumerate(out)}
        bad = [(v, c) for v in out for c in (adj[v] if v < len(adj) else []) if not (c in pos and pos[c] < pos[v])]
        if bad:
            ctx.violation("toposort-order", "a node is yielded before one of its children", dict(rep, parent_child=bad[0]))


def nat_list(xs):
    return coq_list(xs, lambda x: "%d" % x)


def graph_term(adj):
    return coq_list(adj, nat_list)


def key_term(b):
    return nat_list(list(b)) + "%N"


def run(ctx):
    rng = ctx.rng
    # ------------------------------------------------------------ toposort cases
    tcases = []
    corpus = [
        ([], []), ([[]], [0]), ([[0]], [0]), ([[1], [0]], [0]), ([[1], [2], [0]], [0]), ([[1, 2], [3], [1], [2]], [0]),
        ([[], [2], [3], [4], []], [1]), ([[], [2], [3], [4], []], [2, 1]), ([[], [2], [3], [4], []], [1, 2]),
        ([[], [2, 3], [4], [4], []], [1]), ([[], [2, 3], [4], [4], []], [2]), ([[], [2, 3], [4], [4], []], [2, 3, 1]),
        ([[], [3, 2], [3], []], [1]), ([[], [2], [4], [4], []], [1, 3]), ([[], [2], [4], [4], []], [3, 1]),
        ([[1, 1], []], [0, 0]), ([[1, 2], [2], []], [0]), ([[5], [0]], [1]), ([[1], [2], [1]], [3, 0]), ([[1], []], [1, 0, 1]),
        ([[1, 2], [3], [3], [0]], [2]), ([[2, 1], [2], [3], []], [0]), ([[1], [2, 3], [], [1]], [0]),
    ]
    tcases += corpus

    def subsets(n):
        out = []
        for k in range(n + 1):
            out += [list(c) for c in itertools.combinations(range(n), k)]
        return out

    def root_lists(n, maxlen):
        out = []
        for k in range(maxlen + 1):
            out += [list(t) for t in itertools.product(range(n), repeat=k)]
        return out
    nmax = ctx.budget(3, 4)
    for n in range(1, nmax + 1):
        subs = subsets(n)
        rls = root_lists(n, 2 if n <= 3 else 1)
        for adj in itertools.product(subs, repeat=n):
            for rl in rls:
                tcases.append(([list(a) for a in adj], rl))
    # ordered children (all permutations of every subset) on 3 nodes, one or two roots
    perms = []
    for s in subsets(3):
        perms += [list(p) for p in itertools.permutations(s)]
    for adj in itertools.product(perms, repeat=3):
        if any(a != sorted(a) for a in adj):
            tcases.append(([list(a) for a in adj], [0]))
            if ctx.tier == "thorough":
                tcases.append(([list(a) for a in adj], [1, 0]))
    n_exh_t = len(tcases)
    for _ in range(ctx.budget(1500, 80000)):
        n = rng.range(2, rng.choice([5, 8, 12]))
        dens = rng.choice([1, 2, 3])
        acyclic = rng.chance(2, 3)
        adj = []
        for v in range(n):
            cs = []
            for _ in range(rng.range(0, dens + 1)):
                c = rng.range(v + 1, n) if acyclic else rng.range(0, n)   # n itself = a node outside the list
                cs.append(c)
            adj.append(cs)
        if acyclic and rng.chance(1, 4) and n > 2:     # one back edge
            a = rng.range(1, n - 1)
            adj[a].append(rng.range(0, a))
        roots = [rng.range(0, n - 1) for _ in range(rng.range(1, 3))]
        tcases.append((adj, roots))

    # ------------------------------------------------------------ histories of uses of one Sorter
    hcases = []   # (adj, [ {roots, take, same} ])
    U = lambda roots, take=0, same=False: {"roots": list(roots), "take": take, "same": same}
    chain = [[1], [2], [3], []]
    hcases += [
        (chain, [U([0], 2), U([3])]), (chain, [U([0], 2), U([0], 0, True)]), (chain, [U([0], 1), U([0], 4), U([1]), U([0])]),
        ([[], []], [U([0, 1], 1), U([0, 1], 0, True)]), ([[], [], [1]], [U([0, 2], 1), U([0, 2])]),
        ([[1], [0], []], [U([0]), U([2]), U([0], 1), U([2])]), ([[1, 2], [3], [3], []], [U([0], 3), U([1]), U([0])]),
        ([[1], [2], [0], []], [U([0], 1), U([3]), U([0])]), ([[0]], [U([0]), U([0], 1), U([0])]),
    ]
    for n in range(1, 4):
        subs = subsets(n)
        for adj in itertools.product(subs, repeat=n):
            adj = [list(a) for a in adj]
            full = ctx.tier == "thorough" or n < 3
            for a in range(n):
                for k in (1, 2):
                    for b in (range(n) if full else sorted({a, (a + 1) % n})):
                        hcases.append((adj, [U([a], k), U([b])]))
            for a in range(n):
                for b in range(n):
                    if a != b and (full or a < b):
                        hcases.append((adj, [U([a, b], 1), U([a, b], 0, True)]))
    n_exh_h = len(hcases)
    for _ in range(ctx.budget(800, 60000)):
        n = rng.range(2, rng.choice([4, 6, 9]))
        acyclic = rng.chance(3, 4)
        adj = []
        for v in range(n):
            adj.append([rng.range(v + 1, n) if acyclic else rng.range(0, n - 1) for _ in range(rng.range(0, 3))])
        uses = []
        for _ in range(rng.range(2, 4)):
            same = bool(uses) and rng.chance(1, 4)
            roots = uses[-1]["roots"] if same else [rng.range(0, n - 1) for _ in range(rng.range(1, 2))]
            uses.append(U(roots, rng.choice([0, 0, 1, 1, 2, 3]), same))
        hcases.append((adj, uses))

    # ------------------------------------------------------------ trie cases
    A = [0x61, 0x62, 0x71, 0xff]
    kcases = []   # (keys, queries) as lists of bytes objects

    def strings(alpha, maxlen):
        out = []
        for k in range(maxlen + 1):
            out += [bytes(t) for t in itertools.product(alpha, repeat=k)]
        return out
    keys2 = strings(A, 2)
    q3 = strings(A, 3)
    kcases.append(([], q3))
    q2 = strings(A, 2)
    for k in range(1, 3):
        for t in itertools.product(keys2, repeat=k):
            if k == 1 or ctx.tier == "thorough":
                kcases.append((list(t), q3))
            else:   # all queries of length <= 2, and every extension of a key by one or two symbols up to length 3
                ext = sorted(set(kk + bytes(e) for kk in t for n in (1, 2) for e in itertools.product(A, repeat=n) if len(kk) + n == 3))
                kcases.append((list(t), q2 + ext))
    A3 = [0x61, 0x62, 0x71]
    keys3 = strings(A3, 2)
    q3b = strings(A3, 3)
    for t in itertools.product(keys3, repeat=3):
        if ctx.tier == "thorough":
            kcases.append((list(t), q3b))
        elif rng.chance(1, 4):
            kcases.append((list(t), strings(A3, 2) + sorted(set(kk + bytes([e]) for kk in t for e in A3 if len(kk) == 2))))
    n_exh_k = len(kcases)
    alpha_r = [0x00, 0x0f, 0x10, 0x61, 0x62, 0x6f, 0x71, 0x7a, 0xf0, 0xff]
    for _ in range(ctx.budget(600, 30000)):
        al = alpha_r[: rng.range(2, len(alpha_r))]
        nk = rng.range(1, rng.choice([4, 8, 20]))
        keys = [bytes(rng.choice(al) for _ in range(rng.range(0, rng.choice([2, 4, 7])))) for _ in range(nk)]
        qs = []
        for _ in range(12):
            if rng.chance(2, 3) and keys:
                base = rng.choice(keys)
                q = base + bytes(rng.choice(al) for _ in range(rng.range(0, 3)))
                if rng.chance(1, 4) and q:
                    q = q[: rng.range(0, len(q))]
            else:
                q = bytes(rng.choice(al) for _ in range(rng.range(0, 6)))
            qs.append(q)
        kcases.append((keys, qs))
    # more than 255 nodes, so that the implementation grows its index type
    for nk in ctx.budget([150], [150, 400, 70000 // 200]):
        keys = [bytes([rng.below(256), rng.below(256)]) for _ in range(nk)]
        qs = [rng.choice(keys) + bytes([rng.below(256)]) for _ in range(20)] + [bytes([rng.below(256)]) for _ in range(5)]
        kcases.append((keys, qs))
    ctx.rule = ("toposort: every digraph on <= %d nodes (children in increasing order) x every root list of length <= 2 (<= 1 for 4 nodes), every "
                "3-node digraph with children in any order from root 0, the repository's test graphs, and random graphs of up to 12 nodes "
                "(acyclic, acyclic + one back edge, arbitrary; duplicate children, children outside the list); histories of uses of ONE Sorter "
                "(every digraph on <= 3 nodes x [iterate from root a and break on element 1 or 2, then sort root b] and x [roots a,b: break on element 1, "
                "iterate the same iter.Seq again], plus random histories of 2-4 complete / abandoned / panicking iterations): every iteration must "
                "equal the model's fresh sort cut at the break; trie: every sequence of <= 2 "
                "insertions of keys of length <= 2 over {a,b,q,0xff} with all queries of length <= 2 and all extensions of the keys to length 3 (thorough: all queries of length <= 3), sampled sequences of 3 keys over {a,b,q}, "
                "random key sets with queries derived from the keys, and key sets with more than 255 nodes; distinct = distinct input; "
                "non-trivial = graph with at least one edge / at least one key" % nmax)

    ins = [{"mode": "topo", "adj": adj, "roots": roots} for adj, roots in tcases] + \
          [{"mode": "topohist", "adj": adj, "uses": uses} for adj, uses in hcases] + \
          [{"mode": "trie", "keys": [k.hex() for k in keys], "queries": [q.hex() for q in qs]} for keys, qs in kcases]
    outs = ctx.impl("topotrie", ins)
    tterms, tmeta, kterms, kmeta, hterms, hmeta = [], [], [], [], [], []
    for i, o in zip(ins, outs):
        if "crash" in o:
            ctx.corr_break("topotrie", i, o)
            ctx.violation("crash", "harness crashed on this case", {"input": i, "observed": o})
            continue
        if i["mode"] == "topo":
            adj, roots = i["adj"], i["roots"]
            cyc = has_reachable_cycle(adj, roots)
            ctx.count(("t", repr(adj), tuple(roots)), any(adj), "topo-cyclic" if cyc else "topo-dag")
            g, r = graph_term(adj), nat_list(roots)
            if "panic" in o:
                m = PANIC_RE.match(o["panic"])
                if m:
                    suffix = [int(x) for x in m.group(1).split("->")]
                    tterms.append("CTPanic %s %s %s %d" % (g, r, nat_list(suffix), int(m.group(2))))
                else:
                    tterms.append("CTOther %s %s" % (g, r))
                tmeta.append((i, o))
                # direct oracle: the property asks for every reachable node exactly once, also on cyclic input
                if cyc and m:
                    ctx.violation(KEY_CYCLE, "Sort panics (cycle detected) instead of yielding each reachable node once",
                                  {"adj": adj, "roots": roots, "observed": o})
                else:
                    ctx.violation("toposort-panic", "Sort panicked" + ("" if cyc else " on an acyclic graph"),
                                  {"adj": adj, "roots": roots, "observed": o})
                continue
            out = o["out"]
            tterms.append("CTOk %s %s %s" % (g, r, nat_list(out)))
            tmeta.append((i, o))
            want = reach(adj, roots)
            if len(set(out)) != len(out):
                ctx.violation("toposort-duplicate", "a node is yielded more than once", {"adj": adj, "roots": roots, "out": out})
            elif set(out) != want:
                ctx.violation("toposort-not-reachable-set", "the yielded nodes are not exactly the reachable nodes",
                              {"adj": adj, "roots": roots, "out": out, "reachable": sorted(want)})
            elif not cyc:
                pos = {v: k for k, v in enumerate(out)}
                bad = [(v, c) for v in out for c in (adj[v] if v < len(adj) else []) if not pos[c] < pos[v]]
                if bad:
                    ctx.violation("toposort-order", "a node is yielded before one of its children",
                                  {"adj": adj, "roots": roots, "out": out, "parent_child": bad[0]})
        elif i["mode"] == "topohist":
            adj = i["adj"]
            ctx.count(("h", repr(adj), repr(i["uses"])), any(adj), "topo-history")
            if "panic" in o:
                ctx.corr_break("toposort-history", i, o)
                ctx.violation("toposort-panic", "the harness itself panicked outside an iteration", {"input": i, "observed": o})
                continue
            uterms = []
            for n_use, (u, uo) in enumerate(zip(i["uses"], o["uses"])):
                if "panic" in uo:
                    m = PANIC_RE.match(uo["panic"])
                    obs = "(2, %s, %s, %d)" % (nat_list(uo["out"]), nat_list([int(x) for x in m.group(1).split("->")]), int(m.group(2))) if m \
                        else "(3, %s, [], 0)" % nat_list(uo["out"])
                else:
                    obs = "(%d, %s, [], 0)" % (1 if uo["stopped"] else 0, nat_list(uo["out"]))
                uterms.append("(%s, %d, %s)" % (nat_list(u["roots"]), u["take"], obs))
                judge_use(ctx, adj, u["roots"], u["take"], uo, {"history": i["uses"], "use_index": n_use})
            hterms.append("CTHist %s [%s]" % (graph_term(adj), "; ".join(uterms)))
            hmeta.append((i, o))
        else:
            keys = [bytes.fromhex(k) for k in i["keys"]]
            qs = [bytes.fromhex(q) for q in i["queries"]]
            ctx.count(("k", tuple(keys), tuple(qs)), len(keys) > 0, "trie")
            if "panic" in o:
                ctx.corr_break("trie", i, o)
                ctx.violation("trie-panic", "trie panicked", {"input": i, "observed": o})
                continue
            d = {}
            for n, k in enumerate(keys):
                d[k] = n + 1
            qterms = []
            for q, r in zip(qs, o["res"]):
                got_p = [(bytes.fromhex(p), v) for p, v in r["prefixes"]]
                got_g = (bytes.fromhex(r["get"][0]), r["get"][1])
                qterms.append("(%s, (%s, %d), %s)" % (key_term(q), key_term(got_g[0]), got_g[1],
                                                      coq_list(got_p, lambda pv: "(%s, %d)" % (key_term(pv[0]), pv[1]))))
                want_p = [(q[:n], d[q[:n]]) for n in range(len(q) + 1) if q[:n] in d]
                want_g = want_p[-1] if want_p else (b"", 0)
                if got_p != want_p:
                    ctx.violation("trie-prefixes", "Prefixes does not list exactly the inserted prefixes of the query in order",
                                  {"keys": i["keys"], "query": q.hex(), "got": r["prefixes"], "want": [[p.hex(), v] for p, v in want_p]})
                elif got_g != want_g:
                    ctx.violation("trie-get", "Get does not return the longest inserted prefix of the query",
                                  {"keys": i["keys"], "query": q.hex(), "got": r["get"], "want": [want_g[0].hex(), want_g[1]]})
            kterms.append("CTrie %s %s" % (coq_list(keys, key_term), "[" + "; ".join(qterms) + "]"))
            kmeta.append((i, o))
    ctx.sample(ins[5])
    ctx.sample(ins[n_exh_t + 3])
    ctx.sample(ins[len(tcases) + 1])
    ctx.sample({"mode": "trie", "keys": ins[len(tcases) + len(hcases) + n_exh_k + 1]["keys"], "queries": ins[len(tcases) + len(hcases) + n_exh_k + 1]["queries"][:4]})
    header = ("From Coq Require Import List Arith NArith Bool.\nImport ListNotations.\n"
              "From PV Require Import Common.Corr Model.Toposort Model.Trie.\n")
    mism, err = coq_eval_mismatches("cases_C41t", header, tterms, "topo_chk", shard_size=ctx.budget(800, 2000))
    if err:
        raise RuntimeError(err)
    for k in mism:
        i, o = tmeta[k]
        ctx.corr_break("toposort", i, {"observed": o})
    mism, err = coq_eval_mismatches("cases_C41h", header, hterms, "hist_chk", shard_size=ctx.budget(1000, 2500))
    if err:
        raise RuntimeError(err)
    for k in mism:
        i, o = hmeta[k]
        ctx.corr_break("toposort-history", i, {"observed": o})
    mism, err = coq_eval_mismatches("cases_C41k", header, kterms, "trie_chk", shard_size=ctx.budget(150, 400))
    if err:
        raise RuntimeError(err)
    for k in mism:
        i, o = kmeta[k]
        ctx.corr_break("trie", {"mode": "trie", "keys": i["keys"], "queries": i["queries"][:8]}, {"observed_first": o["res"][:8]})
    ctx.exhaustive = True
    ctx.extra["exhaustive_part"] = ("all digraphs on <= %d nodes x root lists; all sequences of <= 2 keys of length <= 2 over 4 symbols x all "
                                    "queries of length <= 2 (+ key extensions; thorough: <= 3)" % nmax)
