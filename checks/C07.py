"""C07 - Faults and cancellation are contained."""
from execlib import *

ID = "C07"
COQ_FILES = COQ_EXEC + ["Props/C07.v"]
PROPS = "Props/C07.v"
THEOREMS = ["C07_steps_bounded_with_faults", "C07_can_finish_with_faults", "C07_faults_contained", "C07_panic_surfaces"]
AXIOMS_OK = []
TRUSTED = TRUSTED_EXEC
ASSUMPTIONS = ["P-core: resolver errors, resolver panics and link failures are in the model's fault plan and the theorems hold for every "
               "plan and schedule; context cancellation and goroutine liveness after return are runtime facts that the model does not "
               "contain: they are observed on the implementation (watchdog, runtime.NumGoroutine back to baseline), not proved",
               "a source reader that fails or panics after K bytes is, for the model, a file that cannot be obtained (fault class of a resolver error / panic); the implementation side enumerates every K"]

KINDS = ["missing", "err", "panic", "link"]


def run(ctx):
    rng = ctx.rng
    cases = []
    nmax = ctx.budget(2, 3)
    for n in range(1, nmax + 1):
        for imports in all_graphs(n):
            for req in ([0], list(range(n))):
                for f in range(n):
                    for kind in KINDS:
                        for par in (1, 2):
                            cases.append((n, imports, req, par, {f: kind}, 0, 0))
    # a reader that fails (or panics) after K bytes, for every K up to past the end of the file, on two small graphs: the cut can
    # fall on a declaration boundary, where the bytes read so far are a valid file by themselves
    for (n, imports, req, f) in ((1, [[]], [0], 0), (2, [[1], []], [0], 1), (3, [[1, 2], [2], []], [0, 2], 2)):
        for K in range(0, ctx.budget(100, 130)):
            for kind in ("read", "readpanic") if K % 3 == 0 or ctx.tier != "quick" else ("read",):
                cases.append((n, imports, req, 1 + K % 2, {f: "%s:%d" % (kind, K)}, 0, 0))
    for k in range(ctx.budget(900, 30000)):
        n = rng.range(2, 8)
        imports = random_graph(rng, n, rng.range(15, 50), rng.chance(1, 3))
        req = rng.shuffle([d for d in range(n) if rng.chance(1, 2)] or [0])
        faults = {}
        for _ in range(rng.choice([0, 1, 1, 1, 2, 3])):
            faults[rng.below(n)] = rng.choice(KINDS) if rng.chance(5, 6) else "%s:%d" % (rng.choice(["read", "readpanic"]), rng.below(120))
        cancel = rng.range(1, 3000) if rng.chance(1, 5) else 0
        cases.append((n, imports, req, rng.choice([1, 2, 8]), faults, rng.range(1, 1 << 30) if rng.chance(1, 2) else 0, cancel))
    ctx.rule = ("fault plans: every digraph on <= %d files x request {[0], all} x every single fault (file x {missing, resolver error, "
                "resolver panic, link error}) x parallelism {1,2}; a source reader that fails / panics after K bytes for every K; random graphs of 2..8 files with 0..3 faults, random yields, and in "
                "1/5 of them cancellation after 1..3000 us; distinct = distinct (graph, request, parallelism, plan, cancel); "
                "non-trivial = plan has a fault or a cancellation" % nmax)
    ins = [json_case(n, imp, req, par, faults, ys, timeout_ms=8000, **({"cancel_after_us": c} if c else {}))
           for (n, imp, req, par, faults, ys, c) in cases]
    outs = ctx.impl("graphs", ins)
    terms, meta = [], []
    for c, i, o in zip(cases, ins, outs):
        n, imports, req, par, faults, ys, cancel = c
        ctx.count((n, imports, req, par, sorted(faults.items()), cancel), bool(faults) or bool(cancel),
                  "cancel" if cancel else ("fault:" + "+".join(sorted(set(v.split(":")[0] for v in faults.values()))) if faults else "no-fault"))
        sp = spec(n, imports, req, faults)
        if "crash" in o or "panic" in o:
            ctx.violation("harness-crash", "compile crashed the harness process", {"input": i, "observed": o})
            continue
        if o.get("escaped_panic"):
            ctx.violation("panic-escaped", "a resolver panic escaped Compile instead of being returned as an error", {"input": i, "observed": o})
            continue
        if o["hang"]:
            ctx.violation("hang", "Compile did not return within the watchdog", {"input": i, "observed": o, "spec": sp})
            continue
        if o.get("leaked", 0) > 0:
            ctx.violation("goroutine-leak", "goroutines still alive 2 s after Compile returned", {"input": i, "observed": o})
        if not sp["ok"] and o["ok"]:
            ctx.violation("fault-swallowed", "a fault (or cycle) reachable from the request did not fail the compilation",
                          {"input": i, "observed": o, "spec": sp})
        if sp["ok"] and not o["ok"] and not (cancel and o.get("ctx_err")):
            ctx.violation("spurious-failure", "fault-free acyclic input failed", {"input": i, "observed": o, "spec": sp})
        rf = {x: faults[x] for x in sp["reach"] if faults.get(x)}
        if not cancel and len(rf) == 1 and not sp["cycle"] and mkind(list(rf.values())[0]) == "panic":
            x = list(rf.keys())[0]
            if o.get("panic_file") != "f%d.proto" % x or o.get("panic_value") != "injected panic %d" % x:
                ctx.violation("panic-not-surfaced", "the only fault is a resolver panic but the error does not wrap PanicError{File, Value}",
                              {"input": i, "observed": o})
        if not cancel:
            terms.append(coq_case(n, imports, faults, req, par, o["ok"], None))
            meta.append((i, o, sp))
    ctx.sample(ins[0]); ctx.sample(ins[len(ins) // 2]); ctx.sample(ins[-1])
    mism, err = coq_eval_mismatches("cases_C07", HEADER, terms, "exec_chk", shard_size=500)
    if err:
        raise RuntimeError(err)
    for k in mism:
        i, o, sp = meta[k]
        ctx.corr_break("compile-executor verdict under faults", i, {"observed": o, "spec": sp})
    ctx.exhaustive = True
    ctx.extra["exhaustive_part"] = "every single-fault plan on every digraph on <= %d files" % nmax
