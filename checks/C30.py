"""C30 - Printer round-trip mode reproduces the source."""
import glob, os
from vlib import *
import prnlib

ID = "C30"
COQ_FILES = ["Common/Bytes.v", "Common/Corr.v", "Model/Trivia.v", "Proofs/Trivia.v", "Props/C30.v"]
PROPS = "Props/C30.v"
THEOREMS = ["C30_build_total",
            "C30_trivia_partition", "C30_trivia_partition_refuted", "C30_trivia_partition_partial",
            "C30_emit_roundtrip_id", "C30_emit_roundtrip_id_refuted", "C30_emit_roundtrip_id_partial",
            "C30_print_file_roundtrip", "C30_print_file_roundtrip_refuted", "C30_print_file_roundtrip_partial",
            "C30_print_file_roundtrip_eof_only", "C30_emit_roundtrip_id_eof_only", "C30_trivia_partition_eof_only",
            "C30_eof_only_refuted",
            "C30_per_decl_concat", "C30_per_decl_concat_refuted"]
AXIOMS_OK = []
TRUSTED = ["hand-written Gallina model of trivia.go (buildTriviaIndex, walkScope, walkDecl, walkFused, splitDetached) and of the "
           "token-level replay of the index in round-trip mode (Model/Trivia.v); token.Cursor push-back is modelled by handing "
           "the pushed-back tokens to walkScope",
           "correspondence harness (harness/cmd/printer) + verif hook printer.VerifTriviaDump"]
ASSUMPTIONS = ["the AST-driven emission order of printer.go / decl.go / expr.go / type.go is not modelled: the model replays the index in "
               "the walker's own declaration order; what the AST walk adds (message-literal separators, layout tags, close-comment "
               "handling, slot indices in literal scopes) is decided by the direct oracle only",
               "the dom layer is modelled for the last chunk of the output and the safeguard newline only; the model's PrintFile/Print "
               "outputs are compared with the real ones on the bracket-free stratum (and on every stratum once the tree is repaired)",
               "inputs are token streams the experimental lexer produces: token ids are unique and non-zero"]

# Which instance of the model the working tree is expected to match:
#   cfg_asis      the pinned tree
#   cfg_eof_only  after fixes/C30-final-newline.diff
#   cfg_fixed     after fixes/C30-roundtrip-verbatim.diff
CFG = os.environ.get("VERIF_C30_MODEL", "cfg_eof_only")
EOF_REPAIRED = CFG in ("cfg_eof_only", "cfg_fixed")

CLS = ["CSpace", "CNewline", "CLine", "CBlock", "CUnrec", "CSemi", "CComma", "CAssign", "COther"]
BRK = {9: "BParens", 10: "BBrackets", 11: "BBraces", 12: "BAngles", 13: "BOther"}
HEADER = ("From Coq Require Import List NArith Bool.\nImport ListNotations.\n"
          "From PV Require Import Common.Corr Model.Trivia.\nOpen Scope N_scope.\n")

HAND = [
    "", "\n", " ", "// only a comment", "// only a comment\n", "/* c */", "\n\n\n",
    "message A{}", "message A{}\n", "message A{}\n\n", "message A{}  ", "message A{} // c", "message A{}\n// c\n",
    'syntax = "proto3";\nmessage A { int32 x = 1 [deprecated = true ]; }\n',
    'syntax = "proto3";\noption (foo) = { a: 1 };\n',
    'syntax = "proto3";\noption (foo ) = 1;\n',
    'syntax = "proto3";\nmessage A {\nint32 x = 1;\n}\n',
    'syntax = "proto3";\nmessage A {\n  map<string, int32 > x = 1;\n}\n',
    'syntax = "proto3";\nservice S { rpc F(A ) returns (B ); }\n',
    'syntax = "proto3";\noption a = "a" "b";\n',
    'syntax = "proto3";\noption a = "a"  "b"\n "c";\n',
    'syntax = "proto3";\noption a = "a" /*x*/ "b" /*y*/ "c";\n',
    'syntax = "proto3";\nmessage A { int32 x = 1 [deprecated = true,\n json_name="x"]; }\n',
    'syntax = "proto3";\nmessage A { int32 x = 1 [(a) = 1, (b) = 2]; }\n',
    'syntax = "proto3";\r\nmessage A {\r\n\tint32 x = 1;\r\n}\r\n',
    'syntax = "proto3";\nmessage A {\n\n\n\n  int32 x = 1;\n}\n',
    'syntax = "proto3";  \nmessage A {}   ',
    'syntax = "proto3";\nenum E {\n  A = 0; // c\n}\n',
    'syntax = "proto3";\nenum E {\n  A = 0;\n  // c\n\n}\n',
    'syntax = "proto3";\noption (a) = { foo:1, bar:2 };\n',
    'syntax = "proto3";\noption (a) = {\n  foo: 1\n  bar: 2\n\n};\n',
    'syntax = "proto3";\noption (a) = {x: [{a:1}, {b:2}]};\n',
    'syntax = "proto3";\nservice S {\n  rpc F(\n    A\n  ) returns (B);\n}\n',
    'syntax = "proto3";\nmessage M {\n  message N {\n    int32 x = 1;\n\n  }\n}\n',
    'syntax = "proto3";\nmessage M { int32 r = 4; /* a\n * b\n */\n}\n',
    'syntax = "proto3";\nmessage M {};\n;\n',
    'syntax = "proto2";\nmessage M { optional group G = 1 { optional int32 x = 2; } }\n',
    'syntax = "proto2";\nmessage M { extensions 100 to max; }\nextend M { optional int32 e = 100; }\n',
    "0 1 2\n",
    'syntax = "proto3";\nmessage M { 0 1 2 }\n',
]


def nl(hx, keep=True):
    return "[" + ";".join(str(b) for b in bytes.fromhex(hx)) + "]" if keep else "[]"


def tok_term(t, text):
    if t["c"] >= 9:
        return "Fused %d %d %s %s %s [%s]" % (t["id"], t["close"], BRK[t["c"]], nl(t["t"], text), nl(t["ct"], text),
                                              "; ".join(tok_term(c, text) for c in t["ch"]))
    return "Leaf %d %s %s" % (t["id"], CLS[t["c"]], nl(t["t"], text))


def idx_case(o):
    toks = "[" + "; ".join(tok_term(t, False) for t in o["tree"] or []) + "]"
    il = lambda xs: "[" + ";".join(str(x) for x in xs or []) + "]"
    atts = "[" + "; ".join("(%d, (%s, %s))" % (a["id"], il(a["l"]), il(a["t"])) for a in o["att"] or []) + "]"
    dets = "[" + "; ".join("(%d, (%s, %s, %s))" % (
        d["id"], "[" + ";".join(il(s) for s in d["slots"] or []) + "]",
        "[" + ";".join("true" if b else "false" for b in d["bb"] or []) + "]",
        "true" if d["bbc"] else "false") for d in o["det"] or []) + "]"
    return "TIdx %s %s %s" % (toks, atts, dets)


def print_case(o):
    toks = "[" + "; ".join(tok_term(t, True) for t in o["tree"] or []) + "]"
    return "TPrint %s %s [%s]" % (toks, nl(o["rt"]), "; ".join(nl(d) for d in o["decls"] or []))


def last_solid_end(tree):
    """offset just after the last non-skippable token at the top level (the leaves tile the text)"""
    off, last = 0, 0

    def size(t):
        n = len(bytes.fromhex(t["t"]))
        if t["c"] >= 9:
            n += sum(size(c) for c in t["ch"]) + len(bytes.fromhex(t["ct"]))
        return n
    for t in tree or []:
        off += size(t)
        if t["c"] > 4:
            last = off
    return last


def solid_texts(toks):
    return [(c, bytes.fromhex(t)) for c, t, d, r in (toks or []) if c > 1]


def comment_accounting(src, rt, src_toks, exempt=()):
    """No known defect class loses or duplicates the text of a comment (some move one, re-indent a block
    comment, or let a line comment swallow what follows it).  Compared on whitespace-normalised texts:
    every comment of the source must occur in the output as often as in the source."""
    import re
    norm = lambda t: re.sub(rb"\s+", b" ", t).strip()
    a, b = norm(src), norm(rt)
    keys = set()
    exempt = [norm(x) for x in exempt]
    for c in set(norm(bytes.fromhex(t)) for c, t, d, r in (src_toks or []) if c in (2, 3)):
        if len(c) < 4:
            continue          # `//` and the like occur inside every other comment
        na, nb = a.count(c), b.count(c)
        # comments attached to a message-literal separator go with it (known class)
        if nb < na - sum(1 for x in exempt if c in x):
            keys.add("roundtrip-loses-comment")
        elif nb > na:
            keys.add("roundtrip-duplicates-comment")
    return keys


def token_accounting(src, rt, src_toks, dict_seps):
    """Apart from the separators of message literals no known class loses or duplicates a non-skippable
    token.  Text-based like comment_accounting: every token text must occur as often as in the source."""
    import re, collections
    norm = lambda t: re.sub(rb"\s+", b" ", t).strip()
    a, b = norm(src), norm(rt)
    # the comments of the source are taken out of both texts first (longest first), so that a comment
    # that went with a dropped separator does not count as lost token text
    for c in sorted((norm(bytes.fromhex(t)) for c, t, d, r in (src_toks or []) if c in (2, 3)), key=len, reverse=True):
        a = a.replace(c, b" ", 1)
        b = b.replace(c, b" ", 1)
    allowed = collections.Counter(dict_seps)
    keys = set()
    for c in set(bytes.fromhex(t) for c, t, d, r in (src_toks or []) if c > 4):
        na, nb = a.count(c), b.count(c)
        if nb < na - allowed.get(c, 0):
            keys.add("roundtrip-loses-token")
        elif nb > na:
            keys.add("roundtrip-duplicates-token")
    return keys


def classify(src, o, what):
    """keys of the known defect classes whose trigger is present in a failing source"""
    extra = {}
    F = set(prnlib.analyse(o["tree"], o["att"], o["det"], src, extra))
    if what == "whole":
        rt = bytes.fromhex(o["rt"])
        lse = last_solid_end(o["tree"])
        if EOF_REPAIRED:
            # The tree prints the end of the file verbatim: the text after the last token must be the
            # end of the output, whatever else is wrong; the EOF classes explain nothing any more.
            if rt[:lse] == src[:lse]:
                # the output differs from the source ONLY at the end of the file
                return prnlib.eof_features(src, o["tree"]) or {"roundtrip-mismatch-at-end-of-file:unexplained"}
            # (when the parser left the last tokens out of the AST their trailing trivia goes with them)
            if not rt.endswith(src[lse:]) and not extra.get("stray_literals"):
                F |= prnlib.eof_features(src, o["tree"]) or {"roundtrip-mismatch-at-end-of-file:unexplained"}
        else:
            F |= prnlib.eof_features(src, o["tree"])
        texts = {}

        def collect(ts):
            for t in ts:
                texts[t["id"]] = bytes.fromhex(t["t"])
                if t["c"] >= 9:
                    collect(t["ch"])
        collect(o["tree"] or [])
        exempt = [texts[i] for i in extra.get("sep_leading", []) if extra["cls"].get(i) in (2, 3)]
        F |= comment_accounting(src, bytes.fromhex(o["rt"]), o.get("src_toks"), exempt)
        if extra.get("stray_literals"):
            # three literals in a row are skipped by the parser without a diagnostic; the AST lacks them
            F.add("roundtrip-drops-tokens-absent-from-ast")
        else:
            F |= token_accounting(src, bytes.fromhex(o["rt"]), o.get("src_toks"), extra.get("dict_seps", []))
    else:
        if extra.get("stray_literals"):
            F.add("roundtrip-drops-tokens-absent-from-ast")
        cls = {}

        def walk(ts):
            for t in ts:
                cls[t["id"]] = (t["c"], bytes.fromhex(t["t"]))
                if t["c"] >= 9:
                    walk(t["ch"])
        walk(o["tree"] or [])
        top = set()
        for t in o["tree"] or []:
            top.add(t.get("close", t["id"]))
        for a in o["att"] or []:
            if a["id"] in top and a["t"] and all(cls[i][0] == 0 and cls[i][1] == b" " * len(cls[i][1]) for i in a["t"]):
                F.add("per-declaration-print-drops-trailing-spaces")
    return F


def run(ctx):
    rng = ctx.rng
    cases = []   # (stratum, bytes)
    for s in HAND:
        cases.append(("hand", s.encode()))
    files = sorted(glob.glob(os.path.join(REPO, "internal/testdata/**/*.proto"), recursive=True)
                   + glob.glob(os.path.join(REPO, "experimental/ast/printer/testdata/**/*.proto"), recursive=True))
    files = files if ctx.tier == "thorough" else [f for f in files if os.path.getsize(f) < 5000]
    for f in files:
        cases.append(("corpus:" + os.path.relpath(f, REPO), open(f, "rb").read()))
    plan = [("plain", ctx.budget(100, 1000)), ("plain-nocomment", ctx.budget(30, 300)), ("shuffled-plain", ctx.budget(30, 300)),
            ("flat-adversarial", ctx.budget(100, 1500)), ("adversarial", ctx.budget(200, 4000))]
    for strat, n in plan:
        for _ in range(n):
            cases.append((strat, prnlib.gen_source(rng, strat)[0].encode()))
    ctx.rule = ("sources: %d hand-picked edge cases, the repository's .proto testdata (internal/testdata, experimental/ast/printer/testdata), "
                "generated files in the strata plain / plain-nocomment / shuffled-plain (formatter-like layout), flat-adversarial "
                "(bracket-free declarations, arbitrary trivia, every end-of-file shape) and adversarial (arbitrary trivia between any two "
                "tokens, CRLF, tabs, concatenated strings, missing final newline); distinct = distinct source text; non-trivial = at "
                "least one skippable token" % len(HAND))

    outs = ctx.impl("printer", [{"s": s.hex(), "want": ["rt", "trivia"]} for _, s in cases])
    idx_terms, idx_meta, prn_terms, prn_meta = [], [], [], []
    nfail = 0
    for (strat, src), o in zip(cases, outs):
        rep = {"stratum": strat, "source": src.decode("utf-8", "replace")[:4000]}
        if "crash" in o or "panic" in o:
            ctx.violation("printer-panics", "parser / printer / trivia index panicked or crashed", dict(rep, observed=o))
            continue
        accepted = o["nerr"] == 0
        klass = strat.split(":")[0] + ("" if accepted else "-rejected")
        ctx.count(("s", src), any(t["c"] <= 4 for t in o["tree"] or []) or b" " in src, klass)
        # correspondence 1: the whole trivia index, also for sources the parser rejects (the walker sees tokens only)
        idx_terms.append(idx_case(o))
        idx_meta.append((rep, o))
        if not accepted:
            continue
        # correspondence 2: PrintFile / Print outputs of the model; exact where no AST-level emission is involved
        if strat == "flat-adversarial" or CFG == "cfg_fixed":
            ex = {}
            prnlib.analyse(o["tree"], o["att"], o["det"], src, ex)
            # the model prints every token of the stream; not a case when the parser left tokens out of the AST
            if len(src) < 6000 and not ex.get("stray_literals") and len(prn_terms) < ctx.budget(160, 10**6):
                prn_terms.append(print_case(o))
                prn_meta.append((rep, o))
        # direct oracle: the property on the implementation
        rt = bytes.fromhex(o["rt"])
        if rt != src:
            nfail += 1
            keys = classify(src, o, "whole")
            what = "PrintFile in round-trip mode does not reproduce the source"
            for k in sorted(keys) or ["roundtrip-mismatch:unexplained"]:
                ctx.violation(k, what, dict(rep, printed=rt.decode("utf-8", "replace")[:4000], classes=sorted(keys)))
        dec = b"".join(bytes.fromhex(d) for d in o["decls"] or [])
        if not (src.startswith(dec) and len(dec) >= last_solid_end(o["tree"])):
            keys = classify(src, o, "decls")
            what = "the per-declaration prints do not concatenate to the source minus its trailing trivia"
            for k in sorted(keys) or ["per-declaration-print-mismatch:unexplained"]:
                ctx.violation(k, what, dict(rep, concatenated=dec.decode("utf-8", "replace")[:4000], classes=sorted(keys)))
    ctx.extra["roundtrip_failures_on_accepted_sources"] = nfail
    ctx.extra["model_instance"] = CFG
    for strat, s in cases[len(HAND) + len(files)::97][:4]:
        ctx.sample({"stratum": strat, "source": s.decode("utf-8", "replace")[:600]})

    for name, terms, meta in (("cases_C30_idx", idx_terms, idx_meta), ("cases_C30_prn", prn_terms, prn_meta)):
        if not terms:
            continue
        mism, err = coq_eval_mismatches(name, HEADER, terms, "(trivia_chk %s)" % CFG, shard_size=max(8, len(terms) // (2 * NCPU) + 1))
        if err:
            raise RuntimeError(err)
        for k in mism:
            rep, o = meta[k]
            ctx.corr_break("trivia-index" if name.endswith("idx") else "print-file", rep,
                           {"att": o.get("att"), "det": o.get("det"), "printed": o.get("rt"), "decls": o.get("decls")})
