"""Shared generators / specification oracle for the incremental-executor properties C33, C34 (and C35's corollary).

A case is {n, deps: per key a list of groups (one Resolve call per group), inputs, par, panic_at, fail, ops}.
`fail` = {key: [r, m]}: the query of that key returns a fatal error of its own (an ordinary error: no panic, no cycle),
together with its value, iff its input % m == r; a query fails with the first fatal error among its own and its
dependencies' (a failed dependency counts as 0 in the value).
The oracle below is the *specification*: it is computed from the graph and the history alone (fresh values by
recursion over the DAG, the set of keys a Run has to execute, the upward closure an Evict has to remove) and
compared with what the real executor did.  It never looks at the model."""
import itertools, os
from vlib import *

MOD = 1000003

COQ_INC = ["Model/IncExec.v", "Common/Corr.v"]
TRUSTED_INC = ["hand-written small-step Gallina model of experimental/incremental (Model/IncExec.v): one atomic model step per "
               "sync.Map / atomic.Pointer operation, semaphore operation, channel wait and per node visit of checkCycle; "
               "sync.Map, atomic.Pointer, semaphore.Weighted, channel close and sync.RWMutex are modelled by their sequentially "
               "consistent contracts",
               "correspondence harness harness/cmd/incremental (real incremental.Executor with counting queries; introspection "
               "hooks experimental/incremental/verif_hooks.go under build tag verif)"]


POISON = {"evict-with-cleanup-misses-task-created-by-inflight-run", "evict-leaves-dependent-cached", "cancelled-run-result-cached", "pending-task-leaked-by-cancelled-run", "overlapping-run-waits-on-panicked-leader",
          "run-hangs", "stale-value-cached", "stale-value-returned", "panicking-query-cached", "stale-fatal-status-cached",
          "stale-fatal-status-returned"}


def flat(deps, k):
    return [d for g in deps[k] for d in g]


def own_fail(fail, inputs, k):
    f = (fail or {}).get(str(k))
    return bool(f) and f[1] > 0 and inputs[k] % f[1] == f[0]


def fresh(n, deps, inputs, fail=None):
    """(value, failed) of every key that does not reach a cycle ((None, None) otherwise); failed = the query returns a
    fatal error: its own (case field `fail`) or the first one among its dependencies; a failed dependency counts as 0"""
    memo, state = {}, {}

    def go(k):
        if k in memo:
            return memo[k]
        if state.get(k) == 1:
            return None
        state[k] = 1
        v = inputs[k] % MOD
        bad = False
        failed = own_fail(fail, inputs, k)
        for j, d in enumerate(flat(deps, k)):
            r = go(d)
            if r is None:
                bad = True
                dv = 0
            else:
                dv, df = r
                if df:
                    failed, dv = True, 0
            v = (v + (2 * j + 3) * (dv % MOD)) % MOD
        state[k] = 2
        memo[k] = None if bad else (v, failed)
        return memo[k]
    # two passes so that keys visited while their cycle was open are settled
    for k in range(n):
        go(k)
    cyc = reaches_cycle(n, deps)
    ok = [not cyc[k] and memo[k] is not None for k in range(n)]
    return [memo[k][0] if ok[k] else None for k in range(n)], [memo[k][1] if ok[k] else None for k in range(n)]


def fresh_values(n, deps, inputs, fail=None):
    """value of every key that does not reach a cycle (None otherwise)"""
    return fresh(n, deps, inputs, fail)[0]


def reach(deps, roots, stop=()):
    """keys reachable from roots; a key in `stop` is included but not expanded"""
    seen, stack = set(), list(roots)
    while stack:
        x = stack.pop()
        if x in seen:
            continue
        seen.add(x)
        if x in stop:
            continue
        stack.extend(flat(deps, x))
    return seen


def on_cycle(deps, x):
    seen, stack = set(), list(flat(deps, x))
    while stack:
        y = stack.pop()
        if y == x:
            return True
        if y in seen:
            continue
        seen.add(y)
        stack.extend(flat(deps, y))
    return False


def reaches_cycle(n, deps):
    oc = [on_cycle(deps, k) for k in range(n)]
    return [any(oc[y] for y in reach(deps, [k])) for k in range(n)]


def upward_closure(deps, cached, ks):
    """keys of `cached` that are in ks or transitively depend on a key of ks (through cached keys)"""
    out = set(k for k in ks if k in cached)
    changed = True
    while changed:
        changed = False
        for c in cached:
            if c not in out and any(d in out for d in flat(deps, c)):
                out.add(c)
                changed = True
    return out


def is_real_cycle(deps, cyc):
    return (len(cyc) >= 2 and cyc[0] == cyc[-1] and -1 not in cyc and
            all(b in flat(deps, a) for a, b in zip(cyc, cyc[1:])))


def expand(case, out):
    """an `evrun` operation (Evict/Edit issued while a Run is in flight: it has to wait for the dirty lock) is, by the
    specification, the Run followed by the Evict/Edit; returns the (operation, observation) pairs with evrun split up"""
    pairs = []
    for op, o in zip(case["ops"], out.get("ops", [])):
        if op["op"] != "evrun" or o.get("skipped"):
            pairs.append((op, o))
            continue
        pairs.append(({"op": "run", "keys": op["keys"], "concurrent_evict": True}, o))
        if any(r.get("hang") for r in o.get("runs", [])):
            break
        if "vals" in op:
            eop = {"op": "edit", "keys": op["evict"], "vals": op["vals"], "concurrent": True}
        else:
            eop = {"op": "evict", "keys": op["evict"], "concurrent": True}
        pairs.append((eop, {"keys": o.get("ev_keys", []), "tasks": o.get("ev_tasks"), "ev_hang": o.get("ev_hang", False)}))
    return pairs


def oracle(case, out):
    """returns a list of (key, what) for every way the observed history contradicts the specification"""
    n, deps, par = case["n"], case["deps"], case["par"]
    inputs = list(case["inputs"])
    panics = set(int(k) for k in case.get("panic_at", {}))
    viol = []
    cached = set()
    rc = reaches_cycle(n, deps)
    had_panic_run = False
    prev_cached = set()

    def V(key, what):
        viol.append((key, what))

    if "ops" not in out:
        V("harness-crash", "the harness did not answer: %r" % (out,))
        return viol
    for oi, (op, o) in enumerate(expand(case, out)):
        tag = "op %d (%s%s): " % (oi, op["op"], " issued while the previous Run was in flight" if op.get("concurrent") else "")
        if o.get("skipped"):
            break
        if o.get("ev_hang"):
            V("evict-hangs", tag + "Evict did not return after the Run it overlapped with had returned")
            break
        if op["op"] in ("evict", "edit"):
            if op["op"] == "edit":
                for k, v in zip(op["keys"], op["vals"]):
                    inputs[k] = v
            gone = upward_closure(deps, cached, op["keys"])
            want = sorted(cached - gone)
            if o["keys"] != want:
                extra = sorted(set(want) - set(o["keys"]))
                missing = sorted(set(o["keys"]) - set(want))
                late = [k for k in op["keys"] if k in cached and k not in prev_cached]
                if missing and op.get("concurrent") and late and not (set(missing) - upward_closure(deps, cached, late)):
                    V("evict-with-cleanup-misses-task-created-by-inflight-run",
                      tag + "keys %s had no task yet when the call started and were computed by the Run in flight; they and their "
                      "dependents %s stay memoized although the cleanup changed the input" % (late, missing))
                elif missing:
                    V("evict-leaves-dependent-cached", tag + "keys %s depend on an evicted key but stay cached" % missing)
                if extra and not had_panic_run:
                    V("evict-removes-unrelated-key", tag + "keys %s do not depend on an evicted key but were removed" % extra)
            cached = set(o["keys"])
            check_edges(V, tag, deps, cached, o.get("tasks") or [], strict=not had_panic_run)
            continue
        sets = [op["keys"]] if op["op"] == "run" else op["runs"]
        prev_cached = set(cached)
        runs = o["runs"]
        overlapping = len(sets) > 1
        hung = [i for i, r in enumerate(runs) if r.get("hang")]
        if hung:
            if overlapping and (panics & reach(deps, [k for s in sets for k in s], cached)):
                V("overlapping-run-waits-on-panicked-leader",
                  tag + "Run %s did not return within the watchdog while an overlapping Run's query panicked" % hung)
            elif had_panic_run:
                V("pending-task-leaked-by-cancelled-run",
                  tag + "Run %s did not return: a task left pending by an earlier cancelled Run is waited on forever" % hung)
            else:
                V("run-hangs", tag + "Run %s did not return within the watchdog" % hung)
            break
        exec_set = reach(deps, [k for s in sets for k in s], cached) - cached
        P = exec_set & panics
        fv, ff = fresh(n, deps, inputs, case.get("fail"))
        for r in runs:
            if r.get("escaped_panic"):
                V("panic-escaped-run", tag + "a panic escaped Run: %s" % r["escaped_panic"])
        # execute counts
        for k in range(n):
            c = o["execs"][k]
            if c > 1 and not P:
                V("executed-twice", tag + "key %d executed %d times without an eviction in between" % (k, c))
            if c >= 1 and k not in exec_set:
                V("cached-key-reexecuted", tag + "key %d was cached (or not needed) but executed" % k)
            if c == 0 and k in exec_set and not P:
                V("needed-key-not-executed", tag + "key %d is needed and not cached but was not executed" % k)
        for k, vs in o.get("computed", {}).items():
            k = int(k)
            for v in vs:
                if fv[k] is not None and v != fv[k]:
                    V("stale-value-computed", tag + "key %d computed %d, a fresh computation gives %d" % (k, v, fv[k]))
        if o["free"] != par:
            V("permits-not-released", tag + "%d of %d semaphore permits are free after the Run(s) returned" % (o["free"], par))
        if o["leaked"]:
            V("goroutines-leaked", tag + "%d goroutines still alive 1.5 s after the Run(s) returned" % o["leaked"])
        for i, (s, r) in enumerate(zip(sets, runs)):
            myP = (reach(deps, s, cached) - cached) & panics
            if r["err"] == "panicerr":
                had_panic_run = True
                if r.get("panic_key") not in panics:
                    V("panic-error-names-wrong-query", tag + "ErrPanic names key %r which does not panic" % r.get("panic_key"))
                if not P:
                    V("spurious-panic-error", tag + "Run failed with ErrPanic but no panicking query had to execute")
                continue
            if r["err"] != "":
                V("unexpected-run-error", tag + "Run returned error class %s" % r["err"])
                continue
            if myP and not overlapping:
                V("cancelled-run-result-cached",
                  tag + "Run of %s succeeded although panicking queries %s are reachable and not cached: a result "
                  "computed by a cancelled Run was memoized" % (s, sorted(myP)))
                continue
            for k, res in zip(s, r["results"]):
                want_cycle = rc[k]
                if res["fatal"] == "cycle":
                    if not want_cycle:
                        V("cycle-reported-on-acyclic", tag + "key %d fails with a cycle error but reaches no cycle" % k)
                    if not is_real_cycle(deps, res.get("cycle", [])):
                        V("reported-cycle-not-real", tag + "cycle error of key %d names %s which is not a dependency cycle"
                          % (k, res.get("cycle")))
                    elif res["cycle"][0] not in reach(deps, [k]):
                        V("reported-cycle-not-reachable", tag + "cycle %s is not reachable from key %d" % (res["cycle"], k))
                elif res["fatal"] == "none":
                    if want_cycle:
                        V("cycle-not-reported", tag + "key %d reaches a dependency cycle but has no cycle error" % k)
                    elif ff[k]:
                        V("stale-fatal-status-returned", tag + "key %d: Run returned a success, a fresh computation fails" % k)
                    elif res["v"] != fv[k]:
                        V("stale-value-returned", tag + "key %d: Run returned %d, a fresh computation gives %d" % (k, res["v"], fv[k]))
                elif res["fatal"] == "fail":
                    # the fatal error a failing query returned from Execute (Value is unspecified then: not compared here)
                    if not want_cycle and not ff[k]:
                        V("stale-fatal-status-returned", tag + "key %d: Run returned the fatal error of a failed query, a fresh "
                          "computation succeeds" % k)
                else:
                    if not (overlapping and P):
                        V("cancelled-run-result-cached", tag + "key %d: Run returned a memoized %s error" % (k, res["fatal"]))
                if not overlapping and res["fatal"] in ("none", "cycle", "fail"):
                    if res["changed"] != (k in exec_set):
                        V("changed-flag-wrong", tag + "key %d: Changed=%s but the key was %scomputed during this Run"
                          % (k, res["changed"], "" if k in exec_set else "not "))
        if overlapping and not P:
            for k in set(k for s in sets for k in s):
                flags = [res["changed"] for s, r in zip(sets, runs) if r["err"] == "" for kk, res in zip(s, r["results"]) if kk == k]
                if sum(flags) > 1:
                    V("changed-flag-in-two-runs", tag + "key %d is reported Changed by %d overlapping Runs" % (k, sum(flags)))
                if k not in exec_set and any(flags):
                    V("changed-flag-wrong", tag + "key %d: Changed although it was cached before the Runs" % k)
        # what the queries saw
        if not P:
            per = {}
            for c, d, ch, fk in o["obs"]:
                per.setdefault((c, d), set()).add(ch)
                # a value or the fatal error of a failed query: either way the memoized result of d (a cycle error is made
                # up by the waiter that found the cycle and is not a memoized result)
                if not overlapping and ch != (d in exec_set) and fk in ("none", "fail"):
                    V("changed-flag-wrong", tag + "query %d saw Changed=%s for dependency %d%s, which was %scomputed during "
                      "this Run" % (c, ch, d, " (a failed query)" if fk == "fail" else "", "" if d in exec_set else "not "))
            if not overlapping:
                byd = {}
                for c, d, ch, fk in o["obs"]:
                    if fk in ("none", "fail"):
                        byd.setdefault(d, set()).add(ch)
                for d, s in byd.items():
                    if len(s) > 1:
                        V("changed-flag-inconsistent", tag + "callers of key %d saw different Changed flags in one Run" % d)
        # the cache afterwards
        tasks = [] if o.get("no_after") else (o.get("tasks") or [])
        for t in tasks:
            if t["state"] == "pending":
                V("pending-task-leaked-by-cancelled-run", tag + "task %d is still pending after every Run returned" % t["k"])
            if t["state"] == "done":
                if t["k"] in panics and t["fatal"] == "none":
                    V("panicking-query-cached", tag + "panicking key %d has a memoized result" % t["k"])
                if t["fatal"] in ("panicerr", "ctxerr"):
                    V("cancelled-run-result-cached", tag + "key %d is memoized with the %s of a cancelled Run" % (t["k"], t["fatal"]))
                if t["fatal"] == "none" and fv[t["k"]] is not None and t["v"] != fv[t["k"]]:
                    V("stale-value-cached", tag + "key %d is memoized with %d, a fresh computation gives %d" % (t["k"], t["v"], fv[t["k"]]))
                if t["fatal"] in ("none", "fail") and ff[t["k"]] is not None and (t["fatal"] == "fail") != ff[t["k"]]:
                    V("stale-fatal-status-cached", tag + "key %d is memoized as a %s, a fresh computation %s"
                      % (t["k"], "failure" if t["fatal"] == "fail" else "success", "fails" if ff[t["k"]] else "succeeds"))
        if o.get("no_after"):
            # an Evict was waiting for this Run: Keys() and the task map cannot be observed before it strikes
            cached = cached | exec_set
            if any(k in POISON for k, _ in viol):
                break
            continue
        if not P:
            want = sorted(cached | exec_set)
            if o["keys"] != want:
                V("cache-contents-wrong", tag + "Keys() = %s, expected %s" % (o["keys"], want))
        cached = set(o["keys"])
        if any(k in POISON for k, _ in viol):
            break   # the executor's state is corrupted from here on; later differences are consequences
        check_edges(V, tag, deps, cached, tasks, strict=not had_panic_run and not P)
    return viol


def check_edges(V, tag, deps, cached, tasks, strict):
    """deps/callers edge sets of the memoized tasks are exactly the dependency relation among memoized keys"""
    by = {t["k"]: t for t in tasks}
    for k in cached:
        t = by.get(k)
        if t is None:
            continue
        want_deps = sorted(set(flat(deps, k)))
        if strict and t["deps"] != want_deps:
            V("deps-edges-inexact", tag + "task %d has deps %s, expected %s" % (k, t["deps"], want_deps))
        want_callers = sorted(c for c in cached if k in flat(deps, c))
        have = [c for c in t["callers"] if c >= 0 and c in cached]
        if sorted(have) != want_callers:
            V("callers-edges-inexact", tag + "task %d has callers %s, expected %s" % (k, t["callers"], want_callers))
        if strict and any(c < 0 for c in t["callers"]):
            V("caller-edge-to-evicted-task", tag + "task %d keeps a caller edge to an evicted task object" % k)


# ---------------------------------------------------------------- generators
def all_dags(n):
    """every DAG on n keys with edges k -> d only for d > k; one Resolve group per key"""
    choices = [[[d for d in range(k + 1, n) if m >> (d - k - 1) & 1] for m in range(1 << (n - k - 1))] for k in range(n)]
    for combo in itertools.product(*choices):
        yield [([list(c)] if c else []) for c in combo]


def all_digraphs(n):
    subsets = [[d for d in range(n) if m >> d & 1] for m in range(1 << n)]
    for combo in itertools.product(subsets, repeat=n):
        yield [([list(c)] if c else []) for c in combo]


def random_groups(rng, ds):
    """split a dependency list into 1..3 Resolve groups"""
    if not ds:
        return []
    ds = rng.shuffle(ds)
    cuts = sorted(set(rng.below(len(ds) + 1) for _ in range(rng.below(3))))
    out, prev = [], 0
    for c in cuts + [len(ds)]:
        if c > prev:
            out.append(ds[prev:c])
        prev = c
    return out


def random_dag(rng, n, density):
    deps = []
    for k in range(n):
        ds = [d for d in range(k + 1, n) if rng.chance(density, 100)]
        deps.append(random_groups(rng, ds))
    return deps


def random_digraph(rng, n, density):
    deps = []
    for k in range(n):
        ds = [d for d in range(n) if (d != k or rng.chance(1, 6)) and rng.chance(density, 100)]
        deps.append(random_groups(rng, ds))
    return deps


def random_history(rng, n, nops, overlap=True):
    ops = []
    for _ in range(nops):
        r = rng.below(10)
        if r < 5 or not ops:
            ops.append({"op": "run", "keys": rng.shuffle([k for k in range(n) if rng.chance(1, 3)] or [rng.below(n)])})
        elif r < 7 and overlap:
            a = [k for k in range(n) if rng.chance(1, 3)] or [rng.below(n)]
            b = [k for k in range(n) if rng.chance(1, 3)] or [rng.below(n)]
            ops.append({"op": "par", "runs": [a, b], "delays_us": [0, rng.below(300)]})
        elif r < 9:
            ks = [k for k in range(n) if rng.chance(1, 4)] or [rng.below(n)]
            ops.append({"op": "edit", "keys": ks, "vals": [rng.below(1000) for _ in ks]})
        else:
            ops.append({"op": "evict", "keys": [k for k in range(n) if rng.chance(1, 4)] or [rng.below(n)]})
    if ops[-1]["op"] != "run":
        ops.append({"op": "run", "keys": list(range(n))})
    return ops


def mk_case(n, deps, ops, par, inputs=None, panic_at=None, jitter=0, timeout_ms=1500, slow_us=None, fail=None):
    c = {"n": n, "deps": deps, "inputs": inputs if inputs is not None else [10 * (k + 1) + 1 for k in range(n)],
         "par": par, "ops": ops, "jitter": jitter, "timeout_ms": timeout_ms}
    if panic_at:
        c["panic_at"] = {str(k): v for k, v in panic_at.items()}
    if slow_us:
        c["slow_us"] = {str(k): v for k, v in slow_us.items()}
    if fail:
        c["fail"] = {str(k): list(v) for k, v in fail.items()}
    return c


# ---------------------------------------------------------------- Coq case terms
# which completion / wake-up protocol the working tree has (Model/IncExec.v wfix); flip with the fix commit
# (VERIF_INC_REPAIRED=1 overrides, for trying the check against a repaired scratch copy)
REPAIRED = os.environ.get("VERIF_INC_REPAIRED", "1") == "1"

HEADER = ("From Coq Require Import List Arith Bool NArith.\nImport ListNotations.\n"
          "From PV Require Import Common.Corr Model.IncExec.\n")


def nl(xs):
    return "[" + ";".join(str(x) for x in xs) + "]"


def coq_case(case, out, after_cancel=False):
    """the observed history as a Coq icase term (None if nothing comparable was observed)"""
    n, deps = case["n"], case["deps"]
    rc = reaches_cycle(n, deps)
    ops = []
    for op, o in expand(case, out):
        if o.get("skipped") or o.get("ev_hang"):
            break
        if op["op"] == "evict":
            ops.append("CEvict %s %s" % (nl(op["keys"]), nl(o["keys"])))
        elif op["op"] == "edit":
            ops.append("CEdit %s %s %s" % (nl(op["keys"]), nl(op["vals"]), nl(o["keys"])))
        elif op["op"] == "run":
            r = o["runs"][0]
            if r.get("hang"):
                ops.append("CRun %s false [] [] None true" % nl(op["keys"]))
                break
            if r.get("escaped_panic") or r["err"] not in ("", "panicerr"):
                break
            canc = r["err"] == "panicerr"
            res = []
            if not canc:
                for k, x in zip(op["keys"], r["results"]):
                    if x["fatal"] not in ("none", "cycle", "fail"):
                        return ops_term(case, ops)
                    res.append("(%d%%N, %s, %s)" % (2 * x["v"] + (x["fatal"] != "none"), coq_bool(x["changed"]), coq_bool(not rc[k])))
            ka = "None" if ((canc and not after_cancel) or o.get("no_after")) else "(Some %s)" % nl(o["keys"])
            ops.append("CRun %s %s [%s] %s %s false" % (nl(op["keys"]), coq_bool(canc), "; ".join(res), nl(o["execs"]), ka))
            if canc and not after_cancel:
                break
        else:
            runs = o["runs"]
            if any(r.get("hang") or r.get("err") != "" for r in runs):
                break
            if any(rc[k] for s in op["runs"] for k in s):
                break
            if any(x["fatal"] not in ("none", "fail") for r in runs for x in r["results"]):
                break
            res = "[" + "; ".join("[" + ";".join("%d%%N" % (2 * x["v"] + (x["fatal"] != "none")) for x in r["results"]) + "]"
                                  for r in runs) + "]"
            ops.append("CPar [%s] %s %s" % ("; ".join(nl(s) for s in op["runs"]), res, nl(o["keys"])))
    return ops_term(case, ops)


def ops_term(case, ops):
    if not ops:
        return None
    pan = "[" + "; ".join("(%s, %d)" % (k, v) for k, v in sorted(case.get("panic_at", {}).items())) + "]"
    deps = "[" + "; ".join("[" + "; ".join(nl(g) for g in gs) + "]" for gs in case["deps"]) + "]"
    fl = "[" + "; ".join("(%s, (%d, %d))" % (k, v[0], v[1]) for k, v in sorted(case.get("fail", {}).items())) + "]"
    return ("{| c_n := %d; c_deps := %s; c_panic := %s; c_fail := %s; c_fix := %s; c_par := %d; c_inputs := %s; c_ops := [%s] |}"
            % (case["n"], deps, pan, fl, coq_bool(REPAIRED), case["par"], nl(case["inputs"]), "; ".join(ops)))
