"""C17 - A failed symbol import leaves the table unchanged."""
from vlib import *
import symlib
from symlib import *

ID = "C17"
COQ_FILES = symlib.COQ_FILES + ["Props/C17.v", "Props/C17_repaired.v"]
PROPS = "Props/C17_repaired.v" if EXT_REPAIRED else "Props/C17.v"
THEOREMS_ASIS = ["C17_failed_import_is_noop_refuted_extnum", "C17_failed_import_is_noop_refuted_deps",
                 "C17_failed_import_is_noop_refuted_packages", "C17_failed_import_repeats_refuted",
                 "C17_failed_import_is_noop_partial", "C17_failed_import_repeats_partial",
                 "C17_failed_package_collision_keeps_table", "C17_fail_fast_handler_is_import",
                 "C17_failed_import_is_noop_partial_any_handler", "C17_collect_refuted_extnum", "C17_collect_refuted_deps",
                 "C17_collect_refuted_packages"]
THEOREMS_REPAIRED = ["C17r_failed_import_is_noop", "C17r_failed_import_repeats",
                     "C17r_failed_import_is_noop_refuted_deps", "C17r_failed_import_is_noop_refuted_packages"]
THEOREMS = THEOREMS_REPAIRED if EXT_REPAIRED else THEOREMS_ASIS
AXIOMS_OK = []
TRUSTED = ["hand-written Gallina model of linker/symbols.go (Model/Symbols.v): package trie as a flat store, Import = importPackages, "
           "recursive import of the dependencies, check-then-commit, AddExtension per extension field; Lookup / LookupExtension",
           "correspondence harness (harness/cmd/symbols) + verif hook linker.VerifSymbolsDump (dump of the trie)"]
ASSUMPTIONS = ["a source span is reduced to the name of the file that owns it; isEnumValue (error text only) is not modelled",
               "a fresh handler per call, of either kind: fail-fast (the reporter returns the error) or collect-all (the reporter returns nil and Handler.Error() becomes ErrInvalidSource); the step-program (lock) model covers the fail-fast kind",
               "importFile (descriptors made by protodesc.NewFile) and importResult (compiled linker.Result values) are one model: "
               "checkResultLocked's extra test for duplicates inside one result cannot fire for a linked result",
               "walk.Descriptors order is taken from the implementation (input of the model, not modelled)"]

KEY_EXT = "extnum-collision-after-commit"
KEY_DEPS = "deps-persist-after-failed-import"
KEY_PKGS = "packages-persist-after-failed-import"

CORPUS = [
    # smallest: one file with two extensions of the same (extendee, tag); imported twice
    {"files": [{"id": 0, "pkg": "", "deps": [], "msgs": [{"name": "M"}],
                "exts": [{"name": "e1", "extendee": "M", "tag": 100}, {"name": "e2", "extendee": "M", "tag": 100}]}],
     "ops": [{"op": "import", "f": 0}, {"op": "import", "f": 0}]},
    # two files extending a.M with tag 100
    {"files": [{"id": 0, "pkg": "a", "deps": [], "msgs": [{"name": "M"}]},
               {"id": 1, "pkg": "x1", "deps": [0], "exts": [{"name": "e1", "extendee": "a.M", "tag": 100}]},
               {"id": 2, "pkg": "x2", "deps": [0], "exts": [{"name": "e2", "extendee": "a.M", "tag": 101}, {"name": "e1", "extendee": "a.M", "tag": 100}]}],
     "ops": [{"op": "import", "f": 1}, {"op": "import", "f": 2}, {"op": "import", "f": 2}, {"op": "lookup", "name": "x2.e2"}]},
    # a dependency stays, the packages of the failed file stay
    {"files": [{"id": 0, "pkg": "d", "deps": [], "msgs": [{"name": "M"}]},
               {"id": 1, "pkg": "d", "deps": [], "msgs": [{"name": "M"}]},
               {"id": 2, "pkg": "e", "deps": [], "msgs": [{"name": "D"}]},
               {"id": 3, "pkg": "p.q", "deps": [2, 1], "msgs": [{"name": "A"}]},
               {"id": 4, "pkg": "p", "deps": [], "msgs": [{"name": "q"}]}],
     "ops": [{"op": "import", "f": 0}, {"op": "import", "f": 3}, {"op": "import", "f": 3}, {"op": "import", "f": 4}]},
    # plain name collision: nothing changes
    {"files": [{"id": 0, "pkg": "a", "deps": [], "msgs": [{"name": "M", "nested": ["N"], "fields": ["x"]}]},
               {"id": 1, "pkg": "a", "deps": [], "msgs": [{"name": "P"}, {"name": "M"}]}],
     "ops": [{"op": "import", "f": 0}, {"op": "import", "f": 1}, {"op": "import", "f": 1}, {"op": "lookup", "name": "a.P"}]},
    # a name against a package and a package against a name
    {"files": [{"id": 0, "pkg": "a.b", "deps": [], "msgs": [{"name": "M"}]},
               {"id": 1, "pkg": "a", "deps": [], "msgs": [{"name": "b", "nested": ["M"]}]},
               {"id": 2, "pkg": "", "deps": [], "msgs": [{"name": "a"}]}],
     "ops": [{"op": "import", "f": 0}, {"op": "import", "f": 1}, {"op": "import", "f": 2}, {"op": "lookup", "name": "a.b"},
             {"op": "lookup", "name": "a.b.M"}, {"op": "lookupext", "msg": "a.b.M", "tag": 100}]},
    {"files": [{"id": 0, "pkg": "a", "deps": [], "msgs": [{"name": "b", "nested": ["M"]}]},
               {"id": 1, "pkg": "a.b", "deps": [], "msgs": [{"name": "M"}]}],
     "ops": [{"op": "import", "f": 0}, {"op": "import", "f": 1}, {"op": "import", "f": 1}, {"op": "lookup", "name": "a.b.M"}]},
    # AddExtension on its own: package mismatch, missing package, duplicate
    {"files": [{"id": 0, "pkg": "a", "deps": [], "msgs": [{"name": "M"}]}],
     "ops": [{"op": "addext", "pkg": "a", "extendee": "a.M", "tag": 100, "owner": 900},
             {"op": "import", "f": 0},
             {"op": "addext", "pkg": "b", "extendee": "a.M", "tag": 100, "owner": 900},
             {"op": "addext", "pkg": "a", "extendee": "a.M", "tag": 100, "owner": 900},
             {"op": "addext", "pkg": "a", "extendee": "a.M", "tag": 100, "owner": 901},
             {"op": "addext", "pkg": "", "extendee": "a.M", "tag": 100, "owner": 902},
             {"op": "lookupext", "msg": "a.M", "tag": 100},
             {"op": "addext", "pkg": "a", "extendee": "a", "tag": 100, "owner": 903}]},
]


def fill(case):
    fs = []
    for f in case["files"]:
        f = dict(f)
        f.setdefault("msgs", [])
        f.setdefault("enums", [])
        f.setdefault("exts", [])
        pkg = f["pkg"]
        names, msgs = [], []
        for m in f["msgs"]:
            m.setdefault("fields", [])
            m.setdefault("nested", [])
            names.append(full(pkg, m["name"]))
            msgs.append(full(pkg, m["name"]))
            for n in m["nested"]:
                names.append(full(pkg, m["name"] + "." + n))
                msgs.append(full(pkg, m["name"] + "." + n))
            for n in m["fields"]:
                names.append(full(pkg, m["name"] + "." + n))
        for e in f["enums"]:
            names.append(full(pkg, e["name"]))
            names += [full(pkg, v) for v in e["values"]]
        names += [full(pkg, x["name"]) for x in f["exts"]]
        f["_names"], f["_msgs"] = names, msgs
        fs.append(f)
    extra = [o.get("name") for o in case["ops"] if o["op"] == "lookup"]
    unames, uexts = universe_queries(fs, extra)
    return {"mode": "seq", "probe": True, "files": strip_private(fs), "ops": case["ops"], "unames": unames, "uexts": uexts}, fs


def gen_case(rng, addext=False):
    fs = gen_universe(rng, rng.range(1, 5))
    ops = []
    nops = rng.range(2, 7)
    last_import = None
    for _ in range(nops):
        r = rng.below(100)
        if r < 55 or last_import is None:
            last_import = rng.below(len(fs))
            ops.append({"op": "import", "f": last_import})
        elif r < 72:
            ops.append({"op": "import", "f": last_import})
        elif r < 82:
            names = [n for f in fs for n in f["_names"]] or ["a.M"]
            ops.append({"op": "lookup", "name": rng.choice(names)})
        elif r < 88 or not addext:
            msgs = [n for f in fs for n in f["_msgs"]] or ["a.M"]
            ops.append({"op": "lookupext", "msg": rng.choice(msgs), "tag": rng.choice(TAGS)})
        else:
            msgs = [n for f in fs for n in f["_msgs"]] or ["a.M"]
            m = rng.choice(msgs)
            pkg = rng.choice([m.rpartition(".")[0], rng.choice(PKGS), fs[rng.below(len(fs))]["pkg"]])
            ops.append({"op": "addext", "pkg": pkg, "extendee": m, "tag": rng.choice(TAGS + [0]), "owner": 900 + rng.below(3)})
    unames, uexts = universe_queries(fs)
    return {"mode": "seq", "probe": True, "files": strip_private(fs), "ops": ops, "unames": unames, "uexts": uexts}, fs


def closure_ids(files_by_id, i, acc=None):
    acc = set() if acc is None else acc
    if i in acc:
        return acc
    acc.add(i)
    for d in files_by_id[i]["deps"]:
        closure_ids(files_by_id, d, acc)
    return acc


def node_index(dump):
    return {n["path"]: n for n in dump}


def oracle(ctx, inp, out):
    """The property on the implementation: around every failed import (an error returned or reported
    to the handler), every observable of the table (all lookups of the universe; the outcome of
    Import(g) for every file g) is unchanged, and importing the same file again fails in the same
    way.  Only import / lookup histories (the quantifier of the property) are judged; every handler
    kind and both import paths are."""
    if any(o["op"] == "addext" for o in inp["ops"]):
        return
    fb = {f["id"]: f for f in inp["files"]}
    order = out["order"]
    variant = {"handler": inp.get("handler", "strict"), "files_as": inp.get("kind", "desc")}
    prev = None
    for k, (op, st) in enumerate(zip(inp["ops"], out["steps"])):
        if op["op"] == "import" and op_failed(st["res"]):
            fid = op["f"]
            res = st["res"]
            errs = res["reported"] or [res]
            before_look = prev["look"] if prev else {"names": [-1] * len(inp["unames"]), "exts": [-1] * len(inp["uexts"])}
            before_dump = node_index(prev["dump"]) if prev else {}
            after_dump = node_index(st["dump"])
            new_files, new_pkgs = set(), set()
            for path, n in after_dump.items():
                b = before_dump.get(path, {"files": [], "symbols": []})
                new_files |= set(n["files"]) - set(b["files"])
                bs = {s["name"] for s in b["symbols"]}
                new_pkgs |= {s["name"] for s in n["symbols"] if s["pkg"] and s["name"] not in bs}
            # an extension error is raised while registering the extensions of a file that was
            # committed just before: the culprit is the newly committed file whose registration of that
            # extension failed
            culprits = set()
            for er in errs:
                if er["e"] == "ext":
                    owner_now = None
                    for n in st["dump"]:
                        for x in n["exts"]:
                            if x["msg"] == er["msg"] and x["tag"] == er["tag"]:
                                owner_now = x["owner"]
                    for c in new_files:
                        cnt = sum(1 for x in out["walks"][str(c)]["exts"] if x["extendee"] == er["msg"] and x["tag"] == er["tag"])
                        if (cnt >= 1 and owner_now != c) or cnt >= 2:
                            culprits.add(c)
                elif er["e"] in ("extpkg", "nopkg"):
                    culprits |= set(new_files)
            replay = dict(variant, files=inp["files"], ops=inp["ops"][: k + 1], failed_step=k, result=res)

            def blame(owner):
                if owner in culprits:
                    return KEY_EXT
                if owner in new_files and owner != fid:
                    return KEY_DEPS
                return None

            def under_new_pkg(nm):
                return any(nm == q or nm.startswith(q + ".") for q in new_pkgs)
            for nm, b, a in zip(inp["unames"], before_look["names"], st["look"]["names"]):
                if a != b:
                    key = blame(a) or (KEY_PKGS if under_new_pkg(nm) and a != fid else "failed-import-changed-lookup")
                    ctx.violation(key, "Lookup(%s) answers %s before and %s after the failed Import(f%d) [%s handler, %s files]"
                                  % (nm, b, a, fid, variant["handler"], variant["files_as"]),
                                  dict(replay, query={"lookup": nm}, before=b, after=a))
            for x, b, a in zip(inp["uexts"], before_look["exts"], st["look"]["exts"]):
                if a != b:
                    key = blame(a) or (KEY_PKGS if under_new_pkg(x["msg"]) and a != fid else "failed-import-changed-lookup")
                    ctx.violation(key, "LookupExtension(%s,%d) answers %s before and %s after the failed Import(f%d) [%s handler, %s files]"
                                  % (x["msg"], x["tag"], b, a, fid, variant["handler"], variant["files_as"]),
                                  dict(replay, query={"lookupext": x}, before=b, after=a))
            for g, b, a in zip(order, st["probe_before"], st["probe_after"]):
                if (a["e"], a["reported"]) == (b["e"], b["reported"]):
                    continue
                key = None
                cl = closure_ids(fb, g)
                aerrs = [x for x in (a["reported"] or ([a] if a["e"] != "ok" else [])) if x not in b["reported"]]
                if culprits & cl:
                    key = KEY_EXT                                     # the failed file now counts as imported
                elif any(x["e"] == "sym" and x.get("aspkg") and x["name"] in new_pkgs for x in aerrs):
                    key = KEY_PKGS
                else:
                    for x in aerrs:
                        if x["e"] not in ("sym", "ext"):
                            continue
                        owner = None      # who owns the entry that the later import now collides with?
                        for n in st["dump"]:
                            for sy in n["symbols"]:
                                if x["e"] == "sym" and sy["name"] == x["name"]:
                                    owner = sy["owner"]
                            for e2 in n["exts"]:
                                if x["e"] == "ext" and e2["msg"] == x["msg"] and e2["tag"] == x["tag"]:
                                    owner = e2["owner"]
                        key = key or blame(owner)
                if key is None and g != fid and (new_files - culprits - {fid}) & cl:
                    key = KEY_DEPS                                    # a dependency that is now imported is skipped
                what = ("after the failed Import(f%d) a later Import(f%d) gives %s, before it gave %s" % (fid, g, a, b))
                if g == fid:
                    what = "importing f%d again gives %s instead of the same failure %s" % (fid, a, b)
                ctx.violation(key or "failed-import-changed-later-import",
                              what + " [%s handler, %s files]" % (variant["handler"], variant["files_as"]),
                              dict(replay, query={"import": g}, before=b, after=a))
        prev = st


VARIANTS = [("strict", "desc"), ("collect", "desc"), ("strict", "result"), ("collect", "result")]


def run(ctx):
    rng = ctx.rng
    base = [fill(c) for c in CORPUS]
    cases = [(with_variant(c[0], h, k), c[1]) for c in base for (h, k) in VARIANTS]
    for i in range(ctx.budget(240, 6000)):
        c = gen_case(rng, addext=rng.chance(1, 4))
        h, k = VARIANTS[i % 4]
        cases.append((with_variant(c[0], h, k), c[1]))
    ins = [c[0] for c in cases]
    outs = ctx.impl("symbols", ins)
    ctx.rule = ("histories of 2..7 operations (Import incl. re-imports, AddExtension, Lookup, LookupExtension) over universes of 1..5 "
                "generated files (packages from a pool of nested prefixes, messages / nested messages / enum values / extensions drawn "
                "from small pools so that name, package-vs-name and extension-number collisions are frequent), each under one of four "
                "variants: fail-fast or collect-all handler x files as protodesc descriptors (importFile path) or as compiled "
                "linker.Result values (importResult path); the hand-picked corpus runs under all four; after every step what was "
                "reported and returned, the whole trie (hook dump) and every lookup of the universe are compared with the model in "
                "coqc; distinct = distinct (files, ops, variant); non-trivial = at least one import failed")
    terms, meta = [], []
    nbuilderr = 0
    for inp, out in zip(ins, outs):
        vname = "%s/%s" % (inp["handler"], inp["kind"])
        if "builderr" in out:
            nbuilderr += 1
            continue
        if "crash" in out or "panic" in out:
            ctx.corr_break("symbols:seq", inp, out)
            ctx.violation("panic", "implementation panicked or crashed", {"input": inp, "observed": out})
            continue
        failed = [(st["res"]["reported"] or [st["res"]])[0]["e"] for op, st in zip(inp["ops"], out["steps"])
                  if op["op"] == "import" and op_failed(st["res"])]
        klass = vname + ":" + ("no-failure" if not failed else "+".join(sorted(set(failed))))
        ctx.count((json.dumps(inp["files"], sort_keys=True), json.dumps(inp["ops"], sort_keys=True), vname), bool(failed), klass)
        if (inp["handler"], inp["kind"]) == ("strict", "desc"):
            t = coq_seq_case(inp, out)          # sequential model, step programs run alone
        else:
            t = coq_seqH_case(inp, out)         # model with the handler kind explicit
        if t is None:
            ctx.corr_break("symbols:seq", inp, {"unmodelled error": [st["res"] for st in out["steps"]]})
            continue
        terms.append(t)
        meta.append((inp, out))
        oracle(ctx, inp, out)
    ctx.extra["cases_rejected_when_building_the_files"] = nbuilderr
    for c in cases[:2] + cases[5:6]:
        ctx.sample({"handler": c[0]["handler"], "files_as": c[0]["kind"], "files": c[0]["files"], "ops": c[0]["ops"]})
    ctx.sample({"handler": ins[-1]["handler"], "files_as": ins[-1]["kind"], "files": ins[-1]["files"], "ops": ins[-1]["ops"]})
    mism, err = coq_eval_mismatches("cases_C17", HEADER, terms, CHK, shard_size=ctx.budget(24, 200))
    if err:
        raise RuntimeError(err)
    for k in mism:
        inp, out = meta[k]
        ctx.corr_break("symbols:seq:%s/%s" % (inp["handler"], inp["kind"]), {"handler": inp["handler"], "files_as": inp["kind"],
                                                                              "files": inp["files"], "ops": inp["ops"]},
                       {"observed": [st["res"] for st in out["steps"]], "dumps": [st["dump"] for st in out["steps"]]})
